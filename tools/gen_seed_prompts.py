#!/usr/bin/env python3
"""Writes one prompt file per property for an independent sub-agent that is to produce a property-breaking change.
The prompt contains ONLY the text of the property (from properties.jsonl) and the mechanics of the job (scratch worktree,
deliverables) - nothing about the checks in /verif.   usage: gen_seed_prompts.py <round-tag> [Cxx ...]"""
import json, sys
tag = sys.argv[1]
only = set(sys.argv[2:])
props = [json.loads(l) for l in open('/verif/properties.jsonl')]
for p in props:
    pid = p['id']
    if only and pid not in only:
        continue
    n = pid[1:].lower()
    crate = 'stun-agent' if any(f.startswith('stun-agent') for f in p['anchors']['files']) else 'stun-rs'
    mech = "\n".join("- %s (%s)" % (m['name'], m['where']) for m in p['anchors'].get('mechanism', []))
    text = f"""You are helping to evaluate a verification tool for the Rust workspace sancane/rustun (crates stun-rs: STUN/TURN/ICE message codec; stun-agent: sans-IO STUN client; stun-vectors). Your job is to write ONE realistic, subtle change to the LIBRARY code that BREAKS the property below while the library still compiles and the ENTIRE existing test suite still passes - the kind of slip a maintainer could make in a refactoring, optimisation or feature tweak (not sabotage a reviewer would spot in a second, and not a special case of one literal input). Prefer a change whose effect shows only for inputs, histories or usage patterns that are legal under the property's quantifier but that nobody would think of writing a test for.

Property {pid}: {p['title']}

Statement: {p['statement']}

Quantifier: {p['quantifier']['text']}

Why the existing tests cannot settle it: {p['why_tests_cant']}

Code the property is anchored in: {', '.join(p['anchors']['files'])}
{mech}
Observed at: {'; '.join(p['anchors'].get('observe_at', []))}

Your private scratch git worktree of the repository is at /tmp/wt-{pid}. Work ONLY inside /tmp/wt-{pid}. Never use `git stash`. Everything is offline: always pass `--offline` to cargo. Do not touch /repo or /verif (do not even read /verif).

Requirements
1. Change only library source files (not tests, not Cargo manifests' dependencies). 5-80 changed lines. Keep `cargo build --offline -p stun-agent` and `cargo build --offline -p stun-agent --features verif-hooks` working (the feature exposes internal state through stun-agent/src/verif_hooks.rs; keep its accessors reporting the real state).
2. `cargo test --workspace --offline --no-fail-fast` must pass completely with your change and no test edited (409 tests incl. doctests; two tests `test_stun_client_protection_violated` and `test_stun_client_bad_fingerprint_in_response` are flaky 1/256 on their own - re-run if only one of those fails).
3. Write a demonstration: a NEW integration test file {crate}/tests/demo_c{n}.rs using only the public API, whose first line is the comment `// {crate}/tests/demo_c{n}.rs`, that FAILS with your change and PASSES without it, asserting the property (not an implementation detail). Include one control test that passes both ways showing that an ordinary input does not trigger it.
4. Verify all of this yourself (suite with change; demo with change fails; `git apply -R` the library patch, demo passes; re-apply).

Deliverables in /tmp/out-{pid} (create it):
- patch.diff : the library change only (`git -C /tmp/wt-{pid} diff -- <library files>`, must apply to a clean HEAD with `git apply`)
- demo_c{n}.rs : the demonstration test
- meta.json : {{"property": "{pid}", "summary": ..., "needs_to_manifest": precisely what input / scenario is needed and why ordinary ones do not show it, "shortest_scenario": ..., "files_changed": [...], "ran": [commands and results]}}
Leave /tmp/wt-{pid} with the patch applied and the demo in place. Finish with a short summary.
"""
    open(f'/tmp/{tag}-prompt-{pid}.txt', 'w').write(text)
    print(f'/tmp/{tag}-prompt-{pid}.txt')
