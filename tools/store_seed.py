#!/usr/bin/env python3
"""usage: store_seed.py <Cxx> <seed-name> <caught_by comma list> [note]  -- copies /tmp/out-<Cxx> into /verif/seeded/<seed-name>/"""
import json, os, shutil, sys
pid, name, caught = sys.argv[1], sys.argv[2], sys.argv[3].split(',')
note = sys.argv[4] if len(sys.argv) > 4 else ""
src = f"/tmp/out-{pid}"; dst = f"/verif/seeded/{name}"
os.makedirs(dst, exist_ok=True)
shutil.copy(f"{src}/patch.diff", f"{dst}/patch.diff")
demo = f"demo_{pid.lower()}.rs"
shutil.copy(f"{src}/{demo}", f"{dst}/{demo}")
try:
    m = json.load(open(f"{src}/meta.json"))
except Exception as e:
    m = {"property": pid, "summary": "(agent meta.json unreadable: %s)" % e}
meta = {
    "property": pid,
    "source": "independent sub-agent given only the property text and its own scratch worktree",
    "summary": m.get("summary"),
    "needs_to_manifest": m.get("needs_to_manifest"),
    "files_changed": m.get("files_changed"),
    "agent_ran": m.get("ran"),
    "confirmed_by_me": "tools/confirm_seed.sh %s in the scratch worktree: repository suite with the change 409 passed 0 failed; demonstration fails with the change and passes without it" % pid,
    "checks_run": "tools/try_seed.sh (git -C /repo apply; ./check <id> quick; git -C /repo checkout -- .)",
    "caught_by": caught,
    "note": note,
}
json.dump(meta, open(f"{dst}/meta.json", "w"), indent=1)
print("stored", dst)
