#!/bin/bash
# Detection self-test: applies every kept property-breaking change (seeded/*/patch.diff from independent sub-agents,
# mutants/*.diff written while building) to /repo, runs the quick check of the property it breaks, expects exit 1
# with a VIOLATION line, and reverts /repo straight afterwards. Not part of MANIFEST (it edits /repo's working tree).
set -u
cd /verif
git -C /repo status --short | grep -q . && { echo "/repo has uncommitted changes; refusing"; exit 2; }
fail=0
for d in seeded/*/ ; do
  id=$(python3 -c "import json,sys; print(json.load(open('$d/meta.json'))['property'])")
  git -C /repo apply "$d/patch.diff" || { echo "PATCH-FAIL $d"; fail=1; continue; }
  out=$(./check "$id" quick 2>&1); rc=$?
  git -C /repo checkout -- .
  n=$(echo "$out" | grep -c "^VIOLATION property=$id")
  if [ $rc -eq 1 ] && [ "$n" -gt 0 ]; then echo "caught   $id  $d ($n findings)"; else echo "MISSED   $id  $d (rc=$rc)"; fail=1; fi
done
for f in mutants/*.diff; do
  id=$(basename "$f" | sed -E 's/^M([0-9]+).*/C\1/')
  git -C /repo apply "$f" || { echo "PATCH-FAIL $f"; fail=1; continue; }
  out=$(./check "$id" quick 2>&1); rc=$?
  git -C /repo checkout -- .
  if [ $rc -eq 1 ]; then echo "caught   $id  $f"; else echo "MISSED   $id  $f (rc=$rc)"; fail=1; fi
done
exit $fail
