#!/bin/bash
# usage: tools/try_seed.sh <patch.diff> <Cxx> [Cyy ...]   -- applies a seeded change to /repo, runs the quick checks, reverts
set -u
P="$1"; shift
cd /repo && git status --short | grep -q . && { echo "repo dirty"; exit 2; }
git apply "$P" || { echo "patch does not apply"; exit 2; }
cd /verif
for c in "$@"; do
  out=$(./check "$c" quick 2>&1); rc=$?
  echo "== $c rc=$rc"; echo "$out" | grep -E "violation key|MACHINERY|^$c quick" | cut -c1-260 | head -8
done
git -C /repo checkout -- . ; git -C /repo status --short
