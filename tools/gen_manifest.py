#!/usr/bin/env python3
"""Regenerates /verif/MANIFEST.json from the table below. BUILT lists the properties whose check exists."""
import json, os, subprocess, sys

ROOT = os.path.dirname(os.path.dirname(os.path.abspath(__file__)))

BUILT = json.load(open(os.path.join(ROOT, "tools", "built.json")))

P = {
 "C01": ("exploration", "E1", "bounded exhaustive enumeration of messages over value menus + full scalar sweeps, round-trip oracle on the real codec",
         "Every message with up to 2 body attributes over the full value menu in every order x 8 tails (3 on a reduced menu; thorough: 3 on the full menu), every header of the header menu, and full sweeps of every small scalar domain are built, encoded, decoded and compared through public accessors; sizes checked against the header. Exhaustive within those stated bounds, no sampling. Also: deep messages (long runs, 3..=257 / 1000 repeats, every rotation of one value per kind, all 4-sequences over 9 kinds), an attribute behind a filler at every 4-aligned body offset up to 4200 (thorough 16,400), around multiples of 4096 and up to the 65,532-byte maximum, lists of up to 32,760 entries, special IPv6 forms and XOR addresses with special wire forms; the decoded message is encoded again; every message also under another encoder configuration (reused encoder, default context, custom / random padding).",
         "values outside the menus / sweeps; USERNAME compared after a hand-written OpaqueString table", "4/C01"),
 "C02": ("exploration", "E1", "bounded exhaustive differential enumeration: real encoder vs an independent RFC reference codec, plus exhaustive ignorable-bit perturbation",
         "Subject bytes are compared byte-for-byte with R-codec (independent writer from the RFCs) for every message of the C01 space at L<=2, all 16384 message types, every XOR id of the walking-bit family, all 400 error codes, the RFC 5769 vectors; every ignorable padding / reserved bit pattern (all 2^k when k<=10) must not change what is decoded. Also the deep, offset and long-list families of C01, special IPv6 forms and XOR addresses whose wire form is special; decoded values are also compared with the value types' own equality.",
         "R-codec is written by the same author as the harness (cross-checked against RFC 5769 vectors at start-up); two RFC ambiguities follow the library's reading", "4/C02"),
 "C03": ("fault_enumeration", "E2+E3", "exhaustive single-fault walk (every fault kind at every position) over enumerated seeds, fed to decoder x 17 option sets, reassembler x chunkings and clients in every reachable credential state",
         "Every single fault of a finite structure-aware fault alphabet at every position of every seed (all L<=2 reduced-menu messages, RFC vectors, every reply kind of the reference server) is decoded under all 16 option combinations and the context-less decoder, fed to the stream reassembler and delivered to clients in every credential state reachable in <=6 operations; no panic, size relation, prefix-only dependence, client stays usable. Also integrity / fingerprint tails behind a filler at every body offset of the offset family (decoders, get_input_text, clients), 19 UTF-8 / quoting / normalisation injections, and a Trace-level logger so that log arguments are evaluated.",
         "byte strings outside the enumerated fault families (the statement's 'random bytes' are replaced by deterministic families)", "4/C03"),
 "C04": ("fault_enumeration", "E1xE2", "exhaustive single-bit fault walk over protected prefix and MAC of enumerated messages x keys x tails, oracle = independent HMAC/MD5/SHA reference",
         "For every enumerated message x legal integrity tail x key: wire MAC equals the independent HMAC over the RFC input, key bytes equal the independent derivation, validation succeeds, every single-bit fault in protected bytes and MAC and every near-miss key is rejected, appended legal tails leave validation unchanged. Also keys longer than the hash block (63..300-byte passwords, multi-block long-term credentials), every protected-prefix length 0..=300, the deep and offset families, and every construction route of the validating decoders (builder call orders, repeated calls, clones).",
         "HMAC collision resistance is not what is checked; bounded to the enumerated messages and keys", "4/C04"),
 "C05": ("model_checking", "E3", "explicit-state breadth-first exploration of the real StunClient over an event alphabet (sends, timer calls at region representatives, replies of every kind), invariant monitor per transaction",
         "All event sequences up to the stated depth and all deviation-bounded runs to completion are executed on the real client; a per-transaction monitor checks at most one final outcome and silence afterwards on every transition. States deduplicated on the full feature-gated snapshot. Also configurations with request methods 0x080 / 0xFFF / 0x100 / 0xA5A, indications / requests carrying an outstanding id, sends that fail for lack of buffer space.",
         "time abstraction by region representatives; depth / deviation bounds as reported in the evidence", "4/C05"),
 "C06": ("model_checking", "E3", "explicit-state exploration of timer-call schedules (exact / early / late / very late representatives) over a configuration grid, integer-nanosecond schedule monitor",
         "Every sequence of timer calls at region representatives for 1-2 staggered requests over a grid of RTO/Rc/Rm/granularity configurations is run to completion on the real client and compared with the RFC 8489 schedule arithmetic in integer nanoseconds, including byte-identical retransmissions and the exact failure instant. Also 2-4 requests sharing the timer with staggers derived from the schedule so that deadlines coincide exactly, RTO from 1 ms to 70 s, Rc 1..10.",
         "region representatives instead of all instants; grid of configurations", "4/C06"),
 "C07": ("model_checking", "E3", "explicit-state exploration of the real client with short-term credentials against replies built by an independent reference codec/HMAC",
         "All sequences up to the stated depth of sends, timer calls and replies of every authentication kind (valid MI / SHA256 / both / none / corrupted / other password / other algorithm / duplicate; responses, errors, indications) on both transports with the algorithm preset or learned; monitor decides delivery, outgoing USERNAME+integrity and the failure reason from independently computed MACs. Also four requests in flight over a narrow alphabet, application attribute lists that pre-populate USERNAME / MI / SHA256, three credential sets (incl. a 129-byte password and one rewritten by OpaqueString enforcement), methods 0x080 / 0xFFF.",
         "password / username menu of size one; depth bound", "4/C07"),
 "C08": ("model_checking", "E3", "explicit-state exploration of the real client with long-term credentials against an RFC 8489 9.2.4 reference server",
         "All server behaviours up to the stated number of exchanges drawn from the 401/438/success/error alphabet on both transports; every emitted request is judged by an independent implementation of RFC 8489 9.2.4 acceptance; delivery only of replies whose MAC verifies under the independently derived key. Also three realms (one differing only in letter case), challenge attributes in either order, three credential sets, a second method.",
         "two pinned deviations are recorded as known findings; alphabets as stated", "4/C08"),
 "C09": ("exploration", "E1", "exhaustive enumeration of all 87,380 attribute-kind sequences of length <=8 with correct/incorrect checksum subsets under every decoder option set, oracle = 12-line RFC admit rule",
         "All sequences over {ordinary, MI, SHA256, FINGERPRINT} up to length 8 are built by the reference codec and decoded by the real decoder under all 16 option sets; result must equal the RFC 8489 ordering rule transcribed independently; validation may fail only because of an admitted attribute; the agent's iterator is compared on all sequences through hook H2. Also every sequence of length <=5 with the first ordinary attribute a blob of 1000 / 4100 / 20,000 / 65,000 bytes, and every construction route of every decoder configuration on sequences of length <=4.",
         "ordinary attributes are represented by PRIORITY", "4/C09"),
 "C10": ("fault_enumeration", "E1xE2+E3", "exhaustive single-bit and single-byte fault walk over every position of enumerated fingerprinted messages; explicit-state exploration of fingerprint-enforcing clients",
         "CRC on the wire equals an independent CRC-32 for every enumerated message; every single-bit fault at every bit and 4 byte-substitution classes at every byte are never accepted as carrying a valid FINGERPRINT; fingerprint clients are explored with valid / corrupted / absent / misplaced FINGERPRINT replies under every mechanism. Also every message length 0..=300 (1100), the deep and offset families with sparse walks up to the 64 KiB maximum, construction routes of the validating decoders, and client replies with a wrong FINGERPRINT followed by a decoy attribute or a second FINGERPRINT.",
         "bounded to enumerated messages; CRC-32 detects all single-bit and single-byte errors by construction, so the walk checks the plumbing, not the polynomial", "4/C10"),
 "C11": ("model_checking", "E3", "explicit-state exploration with a faithful timer controller (armed timer fired with every lateness representative) and free timer calls, deadline monitor in integer nanoseconds",
         "For up to 3-4 staggered requests with replies, rejected buffers and timer calls, every notification is compared with the independently computed earliest pending deadline and remaining time; under the faithful controller every request must reach a final outcome by the first call at or after its deadline. Also five requests, RTO 3 s / 70 s, indications / requests carrying an outstanding id, sends refused for lack of buffer space.",
         "region representatives; depth bound", "4/C11"),
 "C12": ("model_checking", "E3", "explicit-state exploration over limits 0-4 and directed fill/drain/refill families at limit 10, counting monitor",
         "All histories up to depth 2*limit+4 over sends, indications, every final-outcome kind and rejected buffers for limits 0..4, plus enumerated fill-drain-refill families at the default limit 10; send_request must be refused exactly when the independently counted unfinished requests equal the limit, and a refusal changes nothing (snapshot equality). Also limit 300, indications / requests carrying an outstanding id.",
         "depth bound; limit-10 covered by directed families, not all histories", "4/C12"),
 "C13": ("model_checking", "E1xE3", "bounded exhaustive enumeration of application attribute lists x credential states reached by explicit-state exploration, independent parser and MAC verifier as oracle",
         "Every application attribute list up to length 3 over a 12-entry alphabet (including pre-populated credential / integrity / fingerprint attributes) is sent as request and indication from every credential-state representative; each emitted packet is parsed by the independent TLV reader and checked for order, uniqueness, replacement and verifying MAC/CRC; retransmissions compared byte-for-byte. Lists up to length 4 (5 thorough); 14 credential states incl. a second 401 for the realm in another letter case / another realm, three credential sets, send buffers pre-filled with 0xA5, and clients built with the optional builder calls in all six orders.",
         "alphabet of application attributes", "4/C13"),
 "C14": ("exploration", "E1", "exhaustive enumeration of every buffer length 0..=needed+8 x pre-fills for enumerated messages, and of every attribute-byte total around the 64 KiB limit",
         "For every enumerated small message every buffer length from 0 to needed+8 with three pre-fills is tried; success iff long enough, identical bytes, untouched tail; large messages walk every total from 65,480 to 65,540 and beyond with the boundary crossed by the first, middle and last attribute. Also the limit crossed by one to three value-less attributes and by one representative of every attribute kind.",
         "bounded to enumerated messages", "4/C14"),
 "C15": ("model_checking", "E3", "explicit-state enumeration of all transaction chains over a delay x gap menu on the real client, double-precision RFC 6298 reference",
         "All sequences of up to 5 (7 thorough) transactions over the response-delay x idle-gap menu, and all periodic chains of period <=3 repeated to 300 transactions, for a grid of RTO/granularity configurations; the RTO read through the hook and the announced duration are compared with a double-precision RFC 6298 reference within the stated tolerance. Also chains with short-term and long-term credentials (answers are authenticated successes / 401 challenges), error responses, early timer calls and overlapping requests.",
         "delay and gap menus; tolerance from the property statement", "4/C15"),
 "C16": ("exploration", "E1", "exhaustive enumeration of all chunkings with <=3 cuts (every cut position, empty and one-byte chunks) of enumerated streams x buffer sizes, reference splitter as oracle",
         "For every stream of 1-3 packets from the size menu every chunking with up to 3 cuts (short streams) or 2 cuts (long) and every equal-piece chunking is fed to the real reassembler; packets, consumed counts and missing-byte reports are compared with a reference splitter; error streams must be reported at the chunk completing the header. Also every one of the 16,384 message types; error results are compared by kind, call index and the buffer handed back.",
         "packet size menu; cuts bound", "4/C16"),
 "C17": ("model_checking", "E3", "explicit-state exploration with every rejected-buffer kind inserted at every position of every explored history; direct snapshot equality and differential continuation",
         "For every explored history, every rejected-buffer kind is inserted at every position: the call must return Err with no events and an identical full snapshot (except the documented violated marker), and the continuation must produce the same observations as the history without the insertion. Also: a buffer of a kind the statement lists as rejected that is ACCEPTED is a violation in itself; reply kinds without ERROR-CODE, with both MACs, with decoy fingerprints, challenges failing their own authentication.",
         "depth bound; the snapshot hook is the full client state", "4/C17"),
 "C18": ("exploration", "E1xE2", "bounded exhaustive pairwise comparison of all 17 decoder configurations over enumerated, unknown-attribute and single-fault-mutated messages",
         "For every enumerated message, every C09 sequence class, messages with unknown attributes and every single-fault mutant, the results of all 16 option combinations and the context-less decoder are compared pairwise against the stated relations (validation only filters, unknown-data only decorates, not-ignore is a supersequence, no-context equals default).",
         "bounded to the enumerated inputs", "4/C18"),
 "C19": ("exploration", "E1", "bounded exhaustive enumeration of constructor / accessor / conversion arguments (all strings up to length 4 (thorough 5) over an 18-symbol alphabet, strings up to length 3 (4) over that alphabet widened by 13 normalisation-sensitive code points, all u8/u16 domains) and of build-clone-mutate-read call sequences",
         "Every string of length <=4 (thorough <=5) over an 18-symbol alphabet (incl. base64 meta-characters), every string of length <=3 (4) containing one of 13 normalisation-sensitive code points, plus boundary lengths through every string-taking constructor, every u16/u8 through every conversion, every variant through every accessor, and every build/clone/mutate/read sequence within the stated bounds; no panic except the documented expect_* mismatch; clones compared with a Vec reference model.",
         "alphabet and length bounds", "4/C19"),
}

checks = []
na = []
for pid in sorted(P):
    level, engine, technique, text, note, ref = P[pid]
    if pid in BUILT:
        checks.append({
            "property_id": pid,
            "quick_cmd": f"./check {pid} quick",
            "thorough_cmd": f"./check {pid} thorough",
            "evidence_file": f"/verif/evidence/{pid}.json",
            "replay_cmd_template": f"./check {pid} replay {{path}}",
            "engine": engine,
            "level_claimed": {"category": level, "text": text, "design_ref": f"DESIGN.md section {ref}"},
            "level_note": note,
            "technique": technique,
        })
    else:
        na.append({"property_id": pid, "reason": "check not built yet in this round (planned: " + technique + ")"})

hooks_commits = subprocess.run(["git", "-C", "/repo", "log", "--format=%h", "--grep=^verif hooks"], capture_output=True, text=True).stdout.split()

m = {
    "version": 1,
    "setup_cmd": "cd /verif/harness && CARGO_NET_OFFLINE=true cargo build --release --offline",
    "hooks": {
        "guard": "cargo feature `verif-hooks` of crate stun-agent (off by default)",
        "enable": "the harness depends on stun-agent with features = [\"verif-hooks\"] (harness/Cargo.toml); no RUSTFLAGS needed",
        "baseline_off_cmd": "cd /repo && cargo nextest run --workspace --no-fail-fast --offline || cargo test --workspace --no-fail-fast --offline",
        "source_commits": hooks_commits,
        "add_only": True,
    },
    "engines": [
        {"name": "E1", "path": "harness/src/props", "serves_properties": ["C01", "C02", "C09", "C14", "C16", "C18", "C19"],
         "kind_free_text": "bounded exhaustive input enumerator over value menus and full scalar sweeps, executed on the real codec"},
        {"name": "E2", "path": "harness/src/faults.rs", "serves_properties": ["C03", "C04", "C10", "C18"],
         "kind_free_text": "exhaustive single-fault walker: every fault kind at every position of every enumerated seed"},
        {"name": "E3", "path": "harness/src/e3", "serves_properties": ["C03", "C05", "C06", "C07", "C08", "C10", "C11", "C12", "C13", "C15", "C17"],
         "kind_free_text": "explicit-state breadth-first explorer over the real StunClient (state = event history replayed on a fresh client, dedup on the full feature-gated snapshot), deviation-bounded run-to-completion driver"},
    ],
    "checks": checks,
    "not_applicable": na,
    "notes": "All checks are bounded exhaustive explorations of the real crates (no sampling, no solver). Exit 2 is a machinery failure, never a verdict. known_findings.json lists recorded / fixed genuine defects.",
}
json.dump(m, open(os.path.join(ROOT, "MANIFEST.json"), "w"), indent=1)
print("checks:", [c["property_id"] for c in checks], "not_applicable:", [n["property_id"] for n in na])
