#!/bin/bash
# (subset variant: CHECKS="Cxx Cyy ..." selects the checks; patches as arguments; result appended to OUT=<file>)
# False-alarm self-test on SCRATCH copies (does not touch /repo or /verif/evidence): applies every kept behaviour-preserving
# refactoring (equiv/*/patch.diff, or the patch files given as arguments) to a copy of /repo's HEAD, points a copy of the
# harness at it and runs ALL quick checks; every one must exit 0 without a VIOLATION line. Writes /verif/equiv/EQUIV.log
# (only when run without arguments). Removes its scratch copies at the end.
set -u
S=/tmp/eqss-$$
mkdir -p $S/out
git -C /repo archive --format=tar --prefix=repo/ HEAD | tar -x -C $S
cp -r /verif/harness $S/harness && rm -rf $S/harness/target
sed -i "s#/repo/#$S/repo/#g" $S/harness/Cargo.toml
sed -i "s#/verif/.target#$S/target#" $S/harness/.cargo/config.toml
cp /verif/known_findings.json $S/out/
export VERIF_DIR_OVERRIDE=$S/out CARGO_NET_OFFLINE=true
LOG=/verif/equiv/EQUIV.log
if [ $# -gt 0 ]; then files=("$@"); LOG=/dev/stdout; TMP=${OUT:-/dev/stdout}; else files=(/verif/equiv/*/patch.diff); TMP=$LOG.tmp; : > $TMP; fi
fail=0
for f in "${files[@]}"; do
  name=$(basename $(dirname $f))
  (cd $S/repo && patch -p1 -s < "$f") || { echo "PATCH-FAIL $name" >> $TMP; fail=1; continue; }
  if ! (cd $S/harness && cargo build --release --offline >$S/build.log 2>&1); then echo "BUILD-FAIL $name: $(grep -m3 '^error' $S/build.log | tr '\n' ' ')" >> $TMP; fail=1; (cd $S/repo && patch -p1 -s -R < "$f"); continue; fi
  bad=""
  for id in ${CHECKS:-C01 C02 C03 C04 C05 C06 C07 C08 C09 C10 C11 C12 C13 C14 C15 C16 C17 C18 C19}; do
    out=$($S/target/release/vcheck $id quick 2>&1); rc=$?
    n=$(echo "$out" | grep -c "^VIOLATION")
    if [ $rc -ne 0 ] || [ "$n" -gt 0 ]; then bad="$bad $id(rc=$rc)"; echo "$out" | grep -E "violation key=|MACHINERY" | head -5 | cut -c1-400 | sed "s/^/    $name $id: /" >> $TMP; fi
  done
  (cd $S/repo && patch -p1 -s -R < "$f")
  if [ -z "$bad" ]; then echo "silent  $name  (quick checks ${CHECKS:-all 19} exit 0)" >> $TMP; else echo "ALARM   $name :$bad" >> $TMP; fail=1; fi
done
echo "result: $( [ $fail -eq 0 ] && echo all silent || echo SOME ALARMS )  ($(date -u +%Y-%m-%dT%H:%MZ), harness commit $(git -C /verif rev-parse --short HEAD), repo commit $(git -C /repo rev-parse --short HEAD))" >> $TMP
[ $# -eq 0 ] && mv $TMP $LOG
rm -rf $S
exit $fail
