#!/bin/bash
# usage: tools/batch_seeds.sh Cxx [Cyy ...] -- for each: confirm in its scratch worktree, then try against its own quick check
for c in "$@"; do
  [ -f /tmp/out-$c/patch.diff ] || { echo "## $c: no patch yet"; continue; }
  echo "## $c"
  tools/confirm_seed.sh $c 2>&1 | tail -3 | sed 's/^/   /'
  tools/try_seed.sh /tmp/out-$c/patch.diff $c 2>&1 | grep -E "rc=|violation key" | cut -c1-260 | head -4 | sed 's/^/   /'
done
