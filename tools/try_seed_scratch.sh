#!/bin/bash
# usage: tools/try_seed_scratch.sh <patch> <Cxx> [Cyy ...]  -- like try_seed.sh, but on SCRATCH copies of /repo's HEAD and of the
# harness under /tmp (does not touch /repo or /verif/evidence; safe while other checks are running). Removes its copies.
set -u
P="$1"; shift
S=/tmp/tss-$$
mkdir -p $S/out
git -C /repo archive --format=tar --prefix=repo/ HEAD | tar -x -C $S
cp -r ${HARNESS_SRC:-/verif/harness} $S/harness && rm -rf $S/harness/target
sed -i "s#/repo/#$S/repo/#g" $S/harness/Cargo.toml
sed -i -E "s#^target-dir = .*#target-dir = \"$S/target\"#" $S/harness/.cargo/config.toml
cp /verif/known_findings.json $S/out/
export VERIF_DIR_OVERRIDE=$S/out CARGO_NET_OFFLINE=true
(cd $S/repo && patch -p1 -s < "$P") || { echo "PATCH-FAIL"; rm -rf $S; exit 2; }
(cd $S/harness && cargo build --release --offline >$S/build.log 2>&1) || { echo "BUILD-FAIL: $(grep -m3 '^error' $S/build.log | tr '\n' ' ')"; rm -rf $S; exit 2; }
for id in "$@"; do
  out=$($S/target/release/vcheck $id quick 2>&1); rc=$?
  echo "== $id rc=$rc"
  echo "$out" | grep -E "violation key=|MACHINERY" | head -4 | cut -c1-300
done
rm -rf $S
