#!/bin/bash
# usage: tools/confirm_seed.sh <Cxx>  -- in the scratch worktree /tmp/wt-<Cxx>: suite passes with the change, demo fails with it, passes without
set -u
ID="$1"; LOW=$(echo "$ID" | tr 'A-Z' 'a-z')
WT=/tmp/wt-$ID; OUT=/tmp/out-$ID
cd "$WT" || exit 2
git checkout -q -- . ; git clean -fdq -e target
git apply "$OUT/patch.diff" || { echo "patch does not apply"; exit 2; }
demo_dst=$(head -3 "$OUT/demo_$LOW.rs" | grep -oE "(stun-agent|stun-rs|stun-vectors)/tests/[a-z0-9_]+\.rs" | head -1)
[ -z "$demo_dst" ] && demo_dst="stun-agent/tests/demo_$LOW.rs"
echo "demo goes to $demo_dst"
suite=$(cargo test --workspace --offline 2>&1 | grep -E "^test result" | awk '{p+=$4; f+=$6} END {print p" passed "f" failed"}')
echo "suite with change: $suite"
mkdir -p "$(dirname "$demo_dst")"; cp "$OUT/demo_$LOW.rs" "$demo_dst"
pkg=$(echo "$demo_dst" | cut -d/ -f1); tname=$(basename "$demo_dst" .rs)
with=$(cargo test -p "$pkg" --offline --test "$tname" 2>&1 | grep -E "^test result" | tail -1)
echo "demo with change: $with"
git apply -R "$OUT/patch.diff"
without=$(cargo test -p "$pkg" --offline --test "$tname" 2>&1 | grep -E "^test result" | tail -1)
echo "demo without change: $without"
