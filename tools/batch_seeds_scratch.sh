#!/bin/bash
# usage: tools/batch_seeds_scratch.sh Cxx [Cyy ...] -- like batch_seeds.sh but tries each change on scratch copies (tools/try_seed_scratch.sh)
for c in "$@"; do
  [ -f /tmp/out-$c/patch.diff ] || { echo "## $c: no patch yet"; continue; }
  echo "## $c"
  tools/confirm_seed.sh $c 2>&1 | tail -3 | sed 's/^/   /'
  tools/try_seed_scratch.sh /tmp/out-$c/patch.diff $c 2>&1 | cut -c1-260 | head -5 | sed 's/^/   /'
done
