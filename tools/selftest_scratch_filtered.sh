#!/bin/bash
# (filtered variant: SEED_FILTER=<regex on the seed directory name> selects the changes; result in seeded/SELFTEST-supplement.log)
# Detection self-test on SCRATCH copies (does not touch /repo or /verif/evidence): copies /repo's HEAD and the harness
# under /tmp, points the harness copy at the repository copy, applies every kept property-breaking change
# (seeded/*/patch.diff, mutants/*.diff) in turn, runs the quick check of the property it breaks and expects exit 1 with a
# VIOLATION line. Writes /verif/seeded/SELFTEST.log. Removes its scratch copies at the end.
set -u
S=/tmp/stf-$$
mkdir -p $S/out
git -C /repo archive --format=tar --prefix=repo/ HEAD | tar -x -C $S
cp -r /verif/harness $S/harness && rm -rf $S/harness/target
sed -i "s#/repo/#$S/repo/#g" $S/harness/Cargo.toml
sed -i "s#/verif/.target#$S/target#" $S/harness/.cargo/config.toml
cp /verif/known_findings.json $S/out/
export VERIF_DIR_OVERRIDE=$S/out CARGO_NET_OFFLINE=true
run_check() { (cd $S/harness && cargo build --release --offline >/dev/null 2>&1) || { echo "BUILD-FAIL"; return 2; }; $S/target/release/vcheck "$1" quick; }
LOG=/verif/seeded/${LOG_NAME:-SELFTEST-supplement.log}
FILTER=${SEED_FILTER:-.}
: > $LOG.tmp
fail=0
base=$(run_check C01 | tail -1); echo "unchanged copy: $base" >> $LOG.tmp
for f in /verif/seeded/*/patch.diff /verif/mutants/*.diff; do
  echo "$f" | grep -Eq "$FILTER" || continue
  if [[ $f == */seeded/* ]]; then id=$(python3 -c "import json; print(json.load(open('$(dirname $f)/meta.json'))['property'])"); name=$(basename $(dirname $f)); else id=$(basename "$f" | sed -E 's/^M([0-9]+).*/C\1/'); name=$(basename $f); fi
  git -C $S/repo init -q 2>/dev/null
  (cd $S/repo && patch -p1 -s < "$f") || { echo "PATCH-FAIL $name" >> $LOG.tmp; fail=1; continue; }
  out=$(run_check "$id" 2>&1); rc=$?
  (cd $S/repo && patch -p1 -s -R < "$f")
  n=$(echo "$out" | grep -c "^VIOLATION property=$id")
  keys=$(echo "$out" | grep "violation key=" | head -2 | sed -E 's/^ *violation key=([^ ]+).*/\1/' | tr '\n' ' ')
  if [ $rc -eq 1 ] && [ "$n" -gt 0 ]; then echo "caught  $id  $name  ($n findings; e.g. $keys)" >> $LOG.tmp; else echo "MISSED  $id  $name  (rc=$rc)" >> $LOG.tmp; fail=1; fi
done
echo "result: $( [ $fail -eq 0 ] && echo all caught || echo SOME MISSED )  ($(date -u +%Y-%m-%dT%H:%MZ), harness commit $(git -C /verif rev-parse --short HEAD), repo commit $(git -C /repo rev-parse --short HEAD))" >> $LOG.tmp
mv $LOG.tmp $LOG
rm -rf $S
exit $fail
