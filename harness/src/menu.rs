//! Value menus (alphabet of the bounded exhaustive enumerator E1): one entry per shortcut visible in the code.

use crate::refs::codec::{userhash_ref, Addr, LMsg, L, USERHASH_SOURCES};
use crate::refs::crypto;
use stun_rs::{Algorithm, AlgorithmId, HMACKey};

pub fn rep(c: char, n: usize) -> String {
    std::iter::repeat(c).take(n).collect()
}

pub const RFC5769_TID: [u8; 12] = [0xb7, 0xe7, 0xa7, 0x01, 0xbc, 0x34, 0xd6, 0x86, 0xfa, 0x87, 0xdf, 0xae];

pub fn addrs(full: bool) -> Vec<Addr> {
    let v6doc = [0x20, 0x01, 0x0d, 0xb8, 0x12, 0x34, 0x56, 0x78, 0x00, 0x11, 0x22, 0x33, 0x44, 0x55, 0x66, 0x77];
    if full {
        vec![
            Addr::V4([192, 0, 2, 1], 0x2112),
            Addr::V6(v6doc, 0x2112),
            Addr::V4([0, 0, 0, 0], 0),
            Addr::V4([255, 255, 255, 255], 65535),
            Addr::V4([192, 0, 2, 1], 1),
            Addr::V6([0; 16], 0),
            Addr::V6([0xff; 16], 65535),
            // IPv6 forms with an embedded IPv4 address / special prefixes (never to be rewritten as IPv4)
            Addr::V6([0, 0, 0, 0, 0, 0, 0, 0, 0, 0, 0xff, 0xff, 192, 0, 2, 1], 32853), // ::ffff:192.0.2.1 (IPv4-mapped)
            Addr::V6([0, 0, 0, 0, 0, 0, 0, 0, 0, 0, 0, 0, 192, 0, 2, 1], 32853),       // ::192.0.2.1 (IPv4-compatible)
            Addr::V6([0, 0x64, 0xff, 0x9b, 0, 0, 0, 0, 0, 0, 0, 0, 192, 0, 2, 1], 443), // 64:ff9b::192.0.2.1 (NAT64)
            Addr::V6([0, 0, 0, 0, 0, 0, 0, 0, 0, 0, 0, 0, 0, 0, 0, 1], 3478),           // ::1
            Addr::V6([0xff, 2, 0, 0, 0, 0, 0, 0, 0, 0, 0, 0, 0, 0, 0, 1], 3478),        // ff02::1
            Addr::V6([0x20, 2, 192, 0, 2, 1, 0, 0, 0, 0, 0, 0, 0, 0, 0, 0], 3478),      // 2002:c000:0201:: (6to4)
            Addr::V4([127, 0, 0, 1], 3478),
            Addr::V4([224, 0, 0, 1], 3478),
        ]
    } else {
        vec![Addr::V4([192, 0, 2, 1], 0x2112), Addr::V6(v6doc, 32853)]
    }
}

pub fn cookie_nonce(flags3: [u8; 3], suffix: &str) -> String {
    // base64 of three bytes, own implementation
    const T: &[u8; 64] = b"ABCDEFGHIJKLMNOPQRSTUVWXYZabcdefghijklmnopqrstuvwxyz0123456789+/";
    let n = ((flags3[0] as u32) << 16) | ((flags3[1] as u32) << 8) | flags3[2] as u32;
    let mut s = String::from("obMatJos2");
    for k in 0..4 {
        s.push(T[((n >> (18 - 6 * k)) & 63) as usize] as char);
    }
    s.push_str(suffix);
    s
}

/// Quoted-string attributes (NONCE, REALM): the library documents (doc examples, unit tests) that it accepts
/// non-ASCII text only in the shape its grammar crate understands (a code point U+C0..U+FD followed by
/// continuation *code points*), so ordinary non-ASCII text is outside the documented limits; one accepted
/// non-ASCII value is kept.
fn strings_quoted(full: bool, max: usize, allow_empty: bool) -> Vec<String> {
    let mut v = vec!["a".to_string(), rep('a', max)];
    if allow_empty {
        v.insert(0, "".to_string());
    }
    if full {
        v.extend(["ab", "abc", "abcd", "abcde", "\u{c3}\u{a9}"].iter().map(|s| s.to_string()));
        v.push(rep('a', max - 1));
    }
    v
}

fn strings_basic(full: bool, max: usize) -> Vec<String> {
    let mut v = vec!["".to_string(), "a".to_string(), rep('a', max)];
    if full {
        v.extend(["ab", "abc", "abcd", "abcde", "\u{e9}", "\u{20ac}", "\u{1f642}", "a\u{e9}b"].iter().map(|s| s.to_string()));
        v.push(rep('a', max - 1));
        v.push(rep('\u{e9}', max / 2)); // multi-byte up to the limit
    }
    v
}

/// Non-tail attribute menu. `full` = the whole menu, otherwise one short and one boundary value per kind.
pub fn body_menu(full: bool) -> Vec<L> {
    let mut v: Vec<L> = vec![];
    for a in addrs(full) {
        v.push(L::MappedAddress(a.clone()));
        v.push(L::XorMappedAddress(a.clone()));
        v.push(L::AlternateServer(a.clone()));
        v.push(L::XorPeerAddress(a.clone()));
        v.push(L::XorRelayedAddress(a.clone()));
        v.push(L::OtherAddress(a.clone()));
        v.push(L::ResponseOrigin(a.clone()));
    }
    // ERROR-CODE
    let codes: &[u16] = if full { &[300, 399, 400, 401, 420, 438, 487, 500, 699] } else { &[401, 699] };
    for c in codes {
        v.push(L::ErrorCode(*c, "".into()));
    }
    v.push(L::ErrorCode(420, "Unknown Attribute".into()));
    v.push(L::ErrorCode(400, rep('r', 509)));
    if full {
        v.push(L::ErrorCode(438, "Stale \u{e9}\u{20ac}\u{1f642}".into()));
        v.push(L::ErrorCode(300, "a".into()));
        v.push(L::ErrorCode(300, "ab".into()));
        v.push(L::ErrorCode(300, "abc".into()));
        // reason phrases ending in / consisting of white space, of every length modulo 4 (a phrase is text up to the attribute
        // length - nothing in it is padding)
        for r in ["Try ", "abc ", "abcdefg ", "    ", "a   ", "ab  ", "a ", "ab ", "abcd ", " x", "x\t", "abc\u{a0}"] {
            v.push(L::ErrorCode(300, r.into()));
        }
    }
    // NONCE (quoted-string grammar)
    for s in strings_quoted(full, 509, true) {
        v.push(L::Nonce(s));
    }
    v.push(L::Nonce(cookie_nonce([0x80, 0, 0], "xyz")));
    if full {
        v.push(L::Nonce("a\\\"b".into())); // quoted-pair inside
        v.push(L::Nonce("abc\\\"".into())); // ends in an escaped quote
        v.push(L::Nonce("abc\\ ".into())); // ends in an escaped space
        v.push(L::Nonce("a b\tc".into())); // inner LWS
        v.push(L::Nonce(cookie_nonce([0, 0, 0], "")));
        v.push(L::Nonce(cookie_nonce([0x40, 0, 0], "n")));
        v.push(L::Nonce(cookie_nonce([0xC0, 0, 0], "nonce")));
        for q in QUOTED_FORMS {
            v.push(L::Nonce(q.to_string()));
        }
        v.push(L::Nonce("obMatJos2AAA".into())); // one short of a cookie
        v.push(L::Nonce("f//499k954d6OL34oL9FSTvy64sA".into())); // RFC 5769
    }
    // REALM
    for s in strings_quoted(full, 509, false) {
        v.push(L::Realm(s));
    }
    v.push(L::Realm("example.org".into()));
    if full {
        v.push(L::Realm("a\\\"b".into()));
        v.push(L::Realm("r\\\"".into()));
        for q in QUOTED_FORMS {
            v.push(L::Realm(q.to_string()));
        }
    }
    // USERNAME (OpaqueString: not empty; < 509 bytes)
    v.push(L::UserName("a".into()));
    v.push(L::UserName(rep('u', 508)));
    if full {
        for s in ["ab", "abc", "abcd", "abcde", "evtj:h6vY", "\u{30de}\u{30c8}\u{30ea}\u{30c3}\u{30af}\u{30b9}", "x\u{a0}y", "e\u{301}"] {
            v.push(L::UserName(s.into()));
        }
        v.push(L::UserName(rep('u', 507)));
    }
    // SOFTWARE
    for s in strings_basic(full, 509) {
        v.push(L::Software(s));
    }
    if full {
        // texts ending in / containing U+0000, of every length modulo 4 (the attribute length is the text's length: a NUL
        // inside it is text, not padding)
        for s in ["abc\u{0}", "abcdefg\u{0}", "a\u{0}\u{0}\u{0}", "\u{0}\u{0}\u{0}\u{0}", "ab\u{0}", "a\u{0}", "abc\u{0}d", "\u{0}"] {
            v.push(L::Software(s.into()));
        }
    }
    // PADDING
    v.push(L::Padding("".into()));
    v.push(L::Padding(rep('p', 1000)));
    if full {
        v.push(L::Padding("abc".into()));
    }
    // PASSWORD-ALGORITHM
    v.push(L::PasswordAlgorithm(1, vec![]));
    v.push(L::PasswordAlgorithm(2, vec![1, 2, 3, 4, 5]));
    if full {
        v.push(L::PasswordAlgorithm(2, vec![]));
        v.push(L::PasswordAlgorithm(0, vec![]));
        v.push(L::PasswordAlgorithm(3, vec![]));
        v.push(L::PasswordAlgorithm(0xFFFF, vec![]));
        v.push(L::PasswordAlgorithm(1, vec![1]));
        v.push(L::PasswordAlgorithm(1, vec![1, 2]));
        v.push(L::PasswordAlgorithm(1, vec![1, 2, 3]));
        v.push(L::PasswordAlgorithm(2, vec![1, 2, 3, 4]));
    }
    // PASSWORD-ALGORITHMS
    v.push(L::PasswordAlgorithms(vec![]));
    v.push(L::PasswordAlgorithms(vec![(1, vec![]), (2, vec![])]));
    if full {
        v.push(L::PasswordAlgorithms(vec![(1, vec![])]));
        v.push(L::PasswordAlgorithms(vec![(2, vec![])]));
        v.push(L::PasswordAlgorithms(vec![(2, vec![]), (1, vec![])]));
        v.push(L::PasswordAlgorithms(vec![(3, vec![])]));
        v.push(L::PasswordAlgorithms(vec![(1, vec![1]), (2, vec![])]));
        v.push(L::PasswordAlgorithms(vec![(1, vec![1, 2, 3]), (2, vec![1, 2, 3, 4, 5]), (3, vec![])]));
        v.push(L::PasswordAlgorithms(vec![(1, vec![]), (2, vec![9])]));
    }
    // UNKNOWN-ATTRIBUTES
    v.push(L::UnknownAttributes(vec![]));
    v.push(L::UnknownAttributes(vec![1, 2, 3]));
    if full {
        v.push(L::UnknownAttributes(vec![1]));
        v.push(L::UnknownAttributes(vec![1, 2]));
        v.push(L::UnknownAttributes(vec![0x8000, 0xFFFF, 0, 7]));
    }
    // USERHASH
    let n = if full { 2 } else { 1 };
    for (name, realm) in USERHASH_SOURCES.iter().take(n) {
        v.push(L::UserHash(userhash_ref(name, realm)));
    }
    // integers
    let u64s: &[u64] = if full { &[0, 1, 0x0123_4567_89AB_CDEF, u64::MAX] } else { &[0x0123_4567_89AB_CDEF] };
    for x in u64s {
        v.push(L::IceControlled(*x));
        v.push(L::IceControlling(*x));
    }
    let u32s: &[u32] = if full { &[0, 1, 0x6e00_01ff, u32::MAX] } else { &[0x6e00_01ff] };
    for x in u32s {
        v.push(L::Priority(*x));
        v.push(L::LifeTime(*x));
    }
    v.push(L::UseCandidate);
    v.push(L::DontFragment);
    let chans: &[u16] = if full { &[0, 0x4000, 0x7FFF, 0xFFFF] } else { &[0x4000] };
    for c in chans {
        v.push(L::ChannelNumber(*c));
    }
    // DATA / MOBILITY-TICKET
    let blobs: Vec<Vec<u8>> = if full {
        vec![vec![], vec![1], vec![1, 2], vec![1, 2, 3], vec![1, 2, 3, 4], vec![1, 2, 3, 4, 5], (0..1000u32).map(|x| x as u8).collect()]
    } else {
        vec![vec![], vec![1, 2, 3, 4, 5]]
    };
    for b in &blobs {
        v.push(L::Data(b.clone()));
    }
    for b in blobs.iter().take(if full { 4 } else { 2 }) {
        v.push(L::MobilityTicket(b.clone()));
    }
    for f in [1u8, 2u8] {
        v.push(L::RequestedAddressFamily(f));
        v.push(L::AdditionalAddressFamily(f));
    }
    v.push(L::EvenPort(false));
    v.push(L::EvenPort(true));
    v.push(L::RequestedTransport(17));
    if full {
        v.push(L::RequestedTransport(0));
    }
    v.push(L::ReservationToken([1, 2, 3, 4, 5, 6, 7, 8]));
    if full {
        v.push(L::ReservationToken([0xff; 8]));
    }
    v.push(L::AddressErrorCode(1, 440, "".into()));
    v.push(L::AddressErrorCode(2, 443, "Peer Address Family Mismatch".into()));
    v.push(L::Icmp(3, 1, [1, 2, 3, 4]));
    if full {
        v.push(L::Icmp(0, 0, [0; 4]));
        v.push(L::Icmp(127, 511, [0xff; 4]));
    }
    v.push(L::ChangeRequest(true, true));
    if full {
        v.push(L::ChangeRequest(false, false));
        v.push(L::ChangeRequest(true, false));
        v.push(L::ChangeRequest(false, true));
    }
    let ports: &[u16] = if full { &[0, 1, 0x2112, 65535] } else { &[0x2112] };
    for p in ports {
        v.push(L::ResponsePort(*p));
    }
    v
}

/// REALM / NONCE texts in the quoted form (and unquoted look-alikes) whose content ends in backslash runs of either parity
pub const QUOTED_FORMS: &[&str] = &[
    "\"abc\"",             // "abc"            -> abc
    "\"a\\\\\"",          // "a\\"           -> a\\      (ends in an escaped backslash: even run before the closing quote)
    "\"\\\\\\\\\"",       // "\\\\"          -> \\\\     (two escaped backslashes and nothing else)
    "\"a\\\\\\\"\"",       // "a\\\""         -> a\\\"    (escaped backslash, then an escaped quote: odd run)
    "\"a\\\\b\"",         // "a\\b"          -> a\\b
    "a\\\\",              // a\\  (not quoted) -> a\\
    " \"ab\"",             // leading white space before the quoted form -> ab
    "a ",                  // white space after / before / around a plain text -> a
    " a",
    " a b ",
    "a\\\\ ",             // a\\ followed by a space (the backslashes are a pair of their own) -> a\\
];

/// What the accessors of a freshly constructed attribute are expected to return
pub fn expected_constructed(l: &L) -> L {
    match l {
        L::Realm(s) => L::Realm(crate::refs::codec::quoted_ref(s)),
        L::Nonce(s) => L::Nonce(crate::refs::codec::quoted_ref(s)),
        other => other.clone(),
    }
}

/// What the decoder is expected to return for a value that was built from `l` (R-strings table:
/// USERNAME is run through OpaqueString enforcement on decode).
pub fn expected_decoded(l: &L) -> L {
    match l {
        L::UserName(s) => L::UserName(opaque_enforce_ref(s).unwrap_or_else(|| s.clone())),
        L::Realm(s) => L::Realm(crate::refs::codec::quoted_ref(s)),
        L::Nonce(s) => L::Nonce(crate::refs::codec::quoted_ref(s)),
        other => other.clone(),
    }
}

/// R-strings: hand-written PRECIS OpaqueString expectations for the handful of strings the menus use.
pub fn opaque_enforce_ref(s: &str) -> Option<String> {
    if s.is_empty() {
        return None;
    }
    if s.bytes().all(|b| (0x20..0x7f).contains(&b)) {
        return Some(s.to_string());
    }
    match s {
        "x\u{a0}y" => Some("x y".to_string()),
        "e\u{301}" => Some("\u{e9}".to_string()),
        "\u{30de}\u{30c8}\u{30ea}\u{30c3}\u{30af}\u{30b9}" => Some(s.to_string()),
        "p\u{e9}ss" => Some(s.to_string()),
        "r\u{a0}m" => Some("r m".to_string()),
        "p\u{a0}w" => Some("p w".to_string()),
        "\u{e9}" => Some(s.to_string()),
        _ => None,
    }
}

pub const TAILS: &[&[L]] = &[
    &[],
    &[L::Mi],
    &[L::Sha],
    &[L::Fp],
    &[L::Mi, L::Sha],
    &[L::Mi, L::Fp],
    &[L::Sha, L::Fp],
    &[L::Mi, L::Sha, L::Fp],
];

#[derive(Clone, Debug, PartialEq, Eq, Hash)]
pub enum KeySpec {
    Short(&'static str),
    Long { user: &'static str, realm: &'static str, pass: &'static str, sha256: bool },
}

impl KeySpec {
    pub fn subject(&self) -> Result<HMACKey, String> {
        match self {
            KeySpec::Short(p) => HMACKey::new_short_term(p).map_err(|e| format!("{}", e)),
            KeySpec::Long { user, realm, pass, sha256 } => HMACKey::new_long_term(
                user,
                realm,
                pass,
                Algorithm::from(if *sha256 { AlgorithmId::SHA256 } else { AlgorithmId::MD5 }),
            )
            .map_err(|e| format!("{}", e)),
        }
    }
    /// Key bytes by R-strings + R-crypto (RFC 8489 §9.1.1 / §9.2.2 / §18.5.1).
    pub fn ref_bytes(&self) -> Vec<u8> {
        match self {
            KeySpec::Short(p) => opaque_enforce_ref(p).expect("menu password in R-strings").into_bytes(),
            KeySpec::Long { user, realm, pass, sha256 } => {
                let s = format!(
                    "{}:{}:{}",
                    user,
                    opaque_enforce_ref(realm).expect("menu realm in R-strings"),
                    opaque_enforce_ref(pass).expect("menu password in R-strings")
                );
                if *sha256 {
                    crypto::sha256(s.as_bytes()).to_vec()
                } else {
                    crypto::md5(s.as_bytes()).to_vec()
                }
            }
        }
    }
    pub fn show(&self) -> String {
        format!("{:?}", self)
    }
}

/// A deterministic ASCII password of `n` bytes (leaked once per (n, alt)); `alt` differs from it in the last character only.
pub fn long_pass(n: usize, alt: bool) -> &'static str {
    use std::collections::HashMap;
    use std::sync::{Mutex, OnceLock};
    static CACHE: OnceLock<Mutex<HashMap<(usize, bool), &'static str>>> = OnceLock::new();
    let mut c = CACHE.get_or_init(|| Mutex::new(HashMap::new())).lock().unwrap();
    *c.entry((n, alt)).or_insert_with(|| {
        let mut s: String = (0..n).map(|i| (b'a' + ((i * 7 + n) % 26) as u8) as char).collect();
        if alt {
            s.pop();
            s.push('#');
        }
        Box::leak(s.into_boxed_str())
    })
}

pub fn key_menu(full: bool) -> Vec<KeySpec> {
    let mut v = vec![
        KeySpec::Short("VOkJxbRl1RmTxUk/WvJxBt"),
        KeySpec::Long { user: "user", realm: "example.org", pass: "TheMatrIX", sha256: false },
        KeySpec::Long { user: "user", realm: "example.org", pass: "TheMatrIX", sha256: true },
    ];
    if full {
        v.push(KeySpec::Short("p"));
        v.push(KeySpec::Short("p\u{e9}ss"));
        v.push(KeySpec::Short("x\u{a0}y"));
        v.push(KeySpec::Long {
            user: "\u{30de}\u{30c8}\u{30ea}\u{30c3}\u{30af}\u{30b9}",
            realm: "example.org",
            pass: "TheMatrIX",
            sha256: false,
        });
        v.push(KeySpec::Long { user: "a", realm: "b", pass: "c", sha256: true });
        // passwords around the 64-byte hash block (a key longer than the block is hashed by HMAC itself) and far above it
        for n in [63usize, 64, 65, 100, 128, 129, 300] {
            v.push(KeySpec::Short(long_pass(n, false)));
        }
        // long-term credentials whose `user:realm:password` string spans several hash blocks
        v.push(KeySpec::Long { user: long_pass(70, false), realm: long_pass(65, false), pass: long_pass(129, false), sha256: false });
        v.push(KeySpec::Long { user: long_pass(70, false), realm: long_pass(65, false), pass: long_pass(129, false), sha256: true });
        // realm and password that OpaqueString enforcement changes (U+00A0 -> U+0020)
        v.push(KeySpec::Long { user: "user", realm: "r\u{a0}m", pass: "p\u{a0}w", sha256: false });
        v.push(KeySpec::Long { user: "user", realm: "r\u{a0}m", pass: "p\u{a0}w", sha256: true });
    }
    v
}

/// Wrong keys "differing in one character" of user, realm or password.
pub fn near_keys(k: &KeySpec) -> Vec<KeySpec> {
    match k {
        KeySpec::Short(p) => {
            let alt: &'static str = match *p {
                "VOkJxbRl1RmTxUk/WvJxBt" => "VOkJxbRl1RmTxUk/WvJxBu",
                "p" => "q",
                "p\u{e9}ss" => "p\u{e9}st",
                "x\u{a0}y" => "x\u{a0}z",
                long if long.len() >= 63 => long_pass(long.len(), true),
                _ => "other",
            };
            vec![KeySpec::Short(alt), KeySpec::Short("")]
                .into_iter()
                .filter(|k| !matches!(k, KeySpec::Short("")))
                .collect()
        }
        KeySpec::Long { user, realm, pass, sha256 } => {
            let u2: &'static str = if *user == "user" { "usex" } else { "user" };
            let r2: &'static str = if *realm == "example.org" { "example.orh" } else { "example.org" };
            let p2: &'static str = if *pass == "TheMatrIX" { "TheMatrIY" } else if pass.len() >= 63 { long_pass(pass.len(), true) } else { "TheMatrIX" };
            vec![
                KeySpec::Long { user: u2, realm, pass, sha256: *sha256 },
                KeySpec::Long { user, realm: r2, pass, sha256: *sha256 },
                KeySpec::Long { user, realm, pass: p2, sha256: *sha256 },
                KeySpec::Long { user, realm, pass, sha256: !*sha256 },
            ]
        }
    }
}

pub fn header_menu(full: bool) -> Vec<(u16, u8, [u8; 12])> {
    let mut v = vec![(0x001u16, 0u8, RFC5769_TID)];
    if full {
        for (m, c) in [(0x000, 1u8), (0x003, 2), (0x07F, 3), (0x080, 0), (0x0FF, 1), (0x100, 2), (0xFFF, 3)] {
            v.push((m, c, RFC5769_TID));
        }
        v.push((0x001, 2, [0; 12]));
        v.push((0x001, 3, [0xff; 12]));
    }
    v
}

/// Transaction ids making every id byte take part in the XOR: walking ones, and single 0x00 / 0xFF
/// bytes against an 0xA5 background.
pub fn xor_tids() -> Vec<[u8; 12]> {
    let mut v = vec![[0u8; 12], [0xffu8; 12], RFC5769_TID];
    for byte in 0..12 {
        for bit in 0..8 {
            let mut t = [0u8; 12];
            t[byte] = 1 << bit;
            v.push(t);
        }
        for val in [0x00u8, 0xff] {
            let mut t = [0xa5u8; 12];
            t[byte] = val;
            v.push(t);
        }
    }
    v
}

pub fn lmsg(method: u16, class: u8, tid: [u8; 12], attrs: Vec<L>) -> LMsg {
    LMsg { method, class, tid, attrs }
}

/// Extra single-purpose sweeps shared by C01 / C02: value classes that the menus only touch at a few points.
/// Every message carries the swept attribute FIRST and a trailing PRIORITY, so the attribute is never the last one
/// (its padding and the next attribute's offset are exercised), plus the mirrored order.
pub fn extra_sweep_msgs() -> Vec<LMsg> {
    let mut v = vec![];
    let tid = [0x3cu8; 12];
    let mut both = |a: L, v: &mut Vec<LMsg>| {
        v.push(lmsg(1, 2, tid, vec![a.clone(), L::Priority(0x8000_0001)]));
        v.push(lmsg(1, 2, tid, vec![L::Software("xyz".into()), a]));
    };
    // every value length 0..=1030 for the blob attributes, 0..=509 for strings, as a non-last attribute
    for n in 0..=1030usize {
        let b: Vec<u8> = (0..n).map(|x| (x * 13 + 5) as u8).collect();
        both(L::Data(b.clone()), &mut v);
        if n % 3 == 0 {
            both(L::MobilityTicket(b), &mut v);
        }
        if n <= 509 {
            both(L::Software(rep('w', n)), &mut v);
            both(L::Nonce(rep('n', n)), &mut v);
            both(L::ErrorCode(600 + (n % 100) as u16, rep('r', n)), &mut v);
            if n >= 1 && n <= 508 {
                both(L::UserName(rep('u', n)), &mut v);
                both(L::Realm(rep('m', n)), &mut v);
            }
        }
    }
    // addresses: a walking 0xFF / 0x80 / 0x01 byte through every address byte, ports with single bits
    for kind in 0..7 {
        let mk = |a: Addr| match kind {
            0 => L::MappedAddress(a),
            1 => L::XorMappedAddress(a),
            2 => L::AlternateServer(a),
            3 => L::XorPeerAddress(a),
            4 => L::XorRelayedAddress(a),
            5 => L::OtherAddress(a),
            _ => L::ResponseOrigin(a),
        };
        for byte in 0..16 {
            for val in [0xFFu8, 0x80, 0x01] {
                let mut a6 = [0u8; 16];
                a6[byte] = val;
                both(mk(Addr::V6(a6, 1 << (byte % 16))), &mut v);
                if byte < 4 {
                    let mut a4 = [0u8; 4];
                    a4[byte] = val;
                    both(mk(Addr::V4(a4, 0x8000 >> byte)), &mut v);
                }
            }
        }
    }
    // integers: every single-bit value and its complement
    for bit in 0..64 {
        let x = 1u64 << bit;
        both(L::IceControlled(x), &mut v);
        both(L::IceControlling(!x), &mut v);
        if bit < 32 {
            both(L::Priority(1u32 << bit), &mut v);
            both(L::LifeTime(!(1u32 << bit)), &mut v);
        }
    }
    // long lists: every length up to 600 (UNKNOWN-ATTRIBUTES) / 200 (PASSWORD-ALGORITHMS), then up to the largest that fits
    for n in (9..=600usize).chain([1000, 4096, 16384, 32760]) {
        both(L::UnknownAttributes((0..n as u32).map(|x| (x * 2 + 1) as u16).collect()), &mut v);
        if n <= 200 || n == 1000 || n == 4096 {
            both(L::PasswordAlgorithms((0..n).map(|k| (1 + (k % 2) as u16, vec![k as u8; k % 3])).collect()), &mut v);
        }
    }
    // lists of every length 0..=8
    for n in 0..=8usize {
        both(L::UnknownAttributes((0..n as u16).map(|x| 0x7000 + x).collect()), &mut v);
        both(L::PasswordAlgorithms((0..n).map(|k| (1 + (k % 2) as u16, (0..k as u8).collect::<Vec<u8>>())).collect()), &mut v);
        both(L::PasswordAlgorithm(2, (0..(n as u8) * 3).collect()), &mut v);
    }
    v
}

/// One short representative value per attribute kind (distinct padding residues among the variable-length ones).
pub fn kind_reps() -> Vec<L> {
    let mut seen = std::collections::BTreeSet::new();
    let mut v = vec![];
    for a in body_menu(false) {
        if crate::refs::codec::value_bytes(&a, &[0; 12]).len() <= 40 && seen.insert(a.kind()) {
            v.push(a);
        }
    }
    v
}

/// "Deep" messages shared by the codec properties: what the singles / pairs / triples cannot reach.
///  * offsets: every reduced-menu value placed at body offsets around 256 / 512 / 1024 / 2048 / 4096 (thorough: up to
///    32768) behind one long filler, and behind a run of 8-byte attributes (so its index is large as well), followed
///    by one more attribute;
///  * repeats: N copies of one attribute, N in 3..=1000, for 10 kinds;
///  * rotations: one value of every kind in a single message, every rotation and the reversed order;
///  * quads: every 4-sequence over 9 kinds with different padding residues.
pub fn deep_msgs(thorough: bool) -> Vec<LMsg> {
    let mut v = vec![];
    let tid = [0x6du8; 12];
    let reduced = body_menu(false);
    let reps = kind_reps();
    // offsets
    let mut offs = std::collections::BTreeSet::new();
    let ts: &[usize] = if thorough { &[256, 512, 1024, 2048, 4096, 8192, 16384, 32768] } else { &[256, 1024, 4096] };
    for t in ts {
        for d in [-24i64, -20, -4, 0, 4] {
            offs.insert((*t as i64 + d) as usize);
        }
    }
    for f in &offs {
        for (ix, a) in reduced.iter().enumerate() {
            // one long filler (DATA or PADDING alternately) whose TLV occupies exactly f bytes
            let filler = if ix % 2 == 0 { L::Data((0..f - 4).map(|x| (x * 31 + 7) as u8).collect()) } else { L::Padding(rep('f', f - 4)) };
            v.push(lmsg(3, 2, tid, vec![filler, a.clone(), L::Priority(7)]));
            // a run of 8-byte attributes of the same total size (only up to 4096: the index is what matters)
            if *f <= 4100 && f % 8 == 0 {
                let mut attrs: Vec<L> = (0..f / 8).map(|k| if k % 2 == 0 { L::Priority(k as u32) } else { L::LifeTime(k as u32) }).collect();
                attrs.push(a.clone());
                attrs.push(L::UseCandidate);
                v.push(lmsg(3, 2, tid, attrs));
            }
        }
    }
    // repeats
    let rep_kinds: Vec<L> = vec![
        L::Priority(0x0102_0304),
        L::Software("abc".into()),
        L::UserName("ab".into()),
        L::XorPeerAddress(Addr::V4([192, 0, 2, 1], 32853)),
        L::XorRelayedAddress(Addr::V6([0x20, 1, 0xd, 0xb8, 0x12, 0x34, 0x56, 0x78, 0, 0x11, 0x22, 0x33, 0x44, 0x55, 0x66, 0x77], 32853)),
        L::Data(vec![1, 2, 3, 4, 5]),
        L::PasswordAlgorithms(vec![(1, vec![]), (2, vec![9])]),
        L::UnknownAttributes(vec![0x7001]),
        L::ErrorCode(438, "stale".into()),
        L::DontFragment,
    ];
    let ns: &[usize] = if thorough { &[3, 4, 5, 7, 8, 9, 15, 16, 17, 31, 32, 33, 63, 64, 65, 127, 128, 129, 255, 256, 257, 1000] } else { &[3, 4, 5, 8, 9, 16, 17, 32, 33, 64, 65, 128, 129, 256, 257] };
    for a in &rep_kinds {
        for n in ns {
            v.push(lmsg(1, 3, tid, vec![a.clone(); *n]));
        }
    }
    // rotations
    for r in 0..reps.len() {
        let mut attrs = reps.clone();
        attrs.rotate_left(r);
        v.push(lmsg(1, 3, tid, attrs.clone()));
        attrs.reverse();
        v.push(lmsg(1, 3, tid, attrs));
    }
    // quads
    let q: Vec<L> = vec![
        L::Software("a".into()),
        L::UserName("ab".into()),
        L::Realm("abc".into()),
        L::Priority(5),
        L::XorMappedAddress(Addr::V6([0xfe, 0x80, 0, 0, 0, 0, 0, 0, 0, 0, 0, 0, 0, 0, 0, 1], 443)),
        L::ErrorCode(401, "no".into()),
        L::PasswordAlgorithms(vec![(2, vec![1, 2, 3])]),
        L::Data(vec![1, 2, 3, 4, 5]),
        L::EvenPort(true),
    ];
    for a in &q {
        for b in &q {
            for c in &q {
                for d in &q {
                    v.push(lmsg(2, 2, tid, vec![a.clone(), b.clone(), c.clone(), d.clone()]));
                }
            }
        }
    }
    v
}


/// Addresses whose XOR-ed wire form (under transaction id `tid`) is a special IPv6 / IPv4 form: all zeros, ::1,
/// IPv4-mapped, all ones. For the XOR-* attributes the special value appears on the wire, not in the API.
pub fn xor_special_addrs(tid: &[u8; 12]) -> Vec<Addr> {
    let mut mask = [0u8; 16];
    mask[..4].copy_from_slice(&[0x21, 0x12, 0xA4, 0x42]);
    mask[4..].copy_from_slice(tid);
    let mut v = vec![];
    for wire in [
        [0u8; 16],
        [0, 0, 0, 0, 0, 0, 0, 0, 0, 0, 0, 0, 0, 0, 0, 1],
        [0, 0, 0, 0, 0, 0, 0, 0, 0, 0, 0xff, 0xff, 192, 0, 2, 1],
        [0xff; 16],
    ] {
        let mut a = [0u8; 16];
        for i in 0..16 {
            a[i] = wire[i] ^ mask[i];
        }
        v.push(Addr::V6(a, 0x2112 ^ 0x8055));
        v.push(Addr::V4([wire[12] ^ mask[0], wire[13] ^ mask[1], wire[14] ^ mask[2], wire[15] ^ mask[3]], 0x2112));
    }
    v
}

/// Wire size of an attribute list (TLV headers, values, padding).
pub fn body_size(attrs: &[L], tid: &[u8; 12]) -> usize {
    attrs
        .iter()
        .map(|a| {
            let v = match a {
                L::Mi => 20,
                L::Sha => 32,
                L::Fp => 4,
                o => crate::refs::codec::value_bytes(o, tid).len(),
            };
            4 + v + (4 - v % 4) % 4
        })
        .sum()
}

/// Attributes occupying exactly `f` body bytes (f a multiple of 4; 0 gives none). `many`: 512-byte SOFTWARE attributes
/// (the attribute COUNT grows with f) instead of one DATA blob.
pub fn filler(f: usize, many: bool) -> Vec<L> {
    assert!(f % 4 == 0);
    if f == 0 {
        return vec![];
    }
    if !many {
        return vec![L::Data((0..f - 4).map(|x| (x * 29 + 11) as u8).collect())];
    }
    let mut v = vec![L::Software(rep('x', 508)); f / 512];
    if f % 512 != 0 {
        v.push(L::Software(rep('y', f % 512 - 4)));
    }
    v
}

/// Body offsets (multiples of 4) at which the offset families place their subject attribute: every offset up to 4200
/// (thorough 16,400), the neighbourhood of every multiple of 4096 (thorough 1024), and every offset from 65,300 to the
/// largest legal one, so that message offsets cross 65,536 while the body still fits the 16-bit length field.
pub fn offset_points(thorough: bool) -> Vec<usize> {
    let mut s = std::collections::BTreeSet::new();
    let dense = if thorough { 16_400 } else { 4_200 };
    for f in (0..=dense).step_by(4) {
        s.insert(f);
    }
    let step = if thorough { 1024 } else { 4096 };
    let mut t = step;
    while t < 65_300 {
        for d in [-24i64, -20, -8, -4, 0, 4] {
            s.insert((t as i64 + d) as usize);
        }
        t += step;
    }
    for f in (65_300..=65_532).step_by(4) {
        s.insert(f);
    }
    s.into_iter().collect()
}

/// [filler up to offset f][each of xs][tail], for every offset point, dropped when the body would exceed 65,532 bytes.
pub fn offset_msgs(thorough: bool, xs: &[Vec<L>], tails: &[Vec<L>], tid: [u8; 12]) -> Vec<LMsg> {
    let mut v = vec![];
    for (ix, f) in offset_points(thorough).into_iter().enumerate() {
        for x in xs {
            for t in tails {
                let mut attrs = filler(f, ix % 2 == 1);
                attrs.extend(x.iter().cloned());
                attrs.extend(t.iter().cloned());
                if body_size(&attrs, &tid) <= 65_532 {
                    v.push(lmsg(1, 2, tid, attrs));
                }
            }
        }
    }
    v
}


/// DATA blobs whose bytes imitate the 4-byte headers of the integrity / fingerprint attributes (`00 08 00 14`,
/// `00 1C 00 20`, `80 28 00 04`) at every word of their last 48 bytes, one pattern alone and every pair of
/// (pattern, word) placements: whatever scans a message for those attributes other than from the front can be fooled.
pub fn decoy_blobs() -> Vec<Vec<u8>> {
    const PATS: [[u8; 4]; 3] = [[0x00, 0x08, 0x00, 0x14], [0x00, 0x1C, 0x00, 0x20], [0x80, 0x28, 0x00, 0x04]];
    let base: Vec<u8> = (0..48u8).map(|i| 0x40 + (i % 32)).collect();
    let mut out = vec![];
    let places: Vec<(usize, usize)> = (0..3).flat_map(|p| (0..12).map(move |w| (p, w))).collect();
    for (i, (p1, w1)) in places.iter().enumerate() {
        let mut b = base.clone();
        b[w1 * 4..w1 * 4 + 4].copy_from_slice(&PATS[*p1]);
        out.push(b.clone());
        for (p2, w2) in places.iter().skip(i + 1) {
            if w2 == w1 {
                continue;
            }
            let mut c = b.clone();
            c[w2 * 4..w2 * 4 + 4].copy_from_slice(&PATS[*p2]);
            out.push(c);
        }
    }
    out
}
