//! Codec helpers shared by the E1 / E2 properties: build / encode / decode through the subject's
//! public API, always under `guard` so a panic becomes a reportable result.

use crate::refs::codec::{from_subject, to_subject, LMsg, L};
use crate::util::guard;
use stun_rs::{
    DecoderContextBuilder, HMACKey, MessageClass, MessageDecoder, MessageDecoderBuilder, MessageEncoderBuilder,
    MessageMethod, StunMessage, StunMessageBuilder, TransactionId,
};

pub fn class_of(c: u8) -> MessageClass {
    match c & 3 {
        0 => MessageClass::Request,
        1 => MessageClass::Indication,
        2 => MessageClass::SuccessResponse,
        _ => MessageClass::ErrorResponse,
    }
}
pub fn class_u8(c: MessageClass) -> u8 {
    match c {
        MessageClass::Request => 0,
        MessageClass::Indication => 1,
        MessageClass::SuccessResponse => 2,
        MessageClass::ErrorResponse => 3,
    }
}

pub fn build_msg(m: &LMsg, key: Option<&HMACKey>) -> Result<StunMessage, String> {
    let method = MessageMethod::try_from(m.method).map_err(|e| format!("method: {}", e))?;
    let mut b = StunMessageBuilder::new(method, class_of(m.class)).with_transaction_id(TransactionId::from(m.tid));
    for a in &m.attrs {
        b = b.with_attribute(to_subject(a, key).map_err(|e| format!("construct {}: {}", a.kind(), e))?);
    }
    Ok(b.build())
}

/// Encode with the default encoder into a buffer of `cap` bytes pre-filled with `fill`.
/// Ok(Ok((size, buffer))) | Ok(Err(text)) | Err(panic text)
pub fn encode_into(msg: &StunMessage, cap: usize, fill: u8) -> Result<Result<(usize, Vec<u8>), String>, String> {
    guard(|| {
        let enc = MessageEncoderBuilder::default().build();
        let mut buf = vec![fill; cap];
        match enc.encode(&mut buf, msg) {
            Ok(n) => Ok((n, buf)),
            Err(e) => Err(format!("{}", e)),
        }
    })
}

thread_local! {
    static REUSED_ENCODER: stun_rs::MessageEncoder = MessageEncoderBuilder::default().build();
}

pub const ENCODER_VARIANTS: [&str; 4] = ["reused-encoder", "default-context", "custom-padding-a5", "random-padding"];

/// Encode under one of the other encoder configurations: 0 = one encoder object reused for every message of the
/// thread, 1 = encoder with a default context, 2 = custom padding byte 0xA5, 3 = random padding.
pub fn encode_variant(msg: &StunMessage, cap: usize, fill: u8, variant: usize) -> Result<Result<(usize, Vec<u8>), String>, String> {
    use stun_rs::{EncoderContextBuilder, StunPadding};
    guard(|| {
        let mut buf = vec![fill; cap];
        let r = match variant {
            0 => REUSED_ENCODER.with(|e| e.encode(&mut buf, msg)),
            1 => MessageEncoderBuilder::default().with_context(EncoderContextBuilder::default().build()).build().encode(&mut buf, msg),
            2 => MessageEncoderBuilder::default()
                .with_context(EncoderContextBuilder::default().with_custom_padding(StunPadding::Custom(0xA5)).build())
                .build()
                .encode(&mut buf, msg),
            _ => MessageEncoderBuilder::default()
                .with_context(EncoderContextBuilder::default().with_custom_padding(StunPadding::Random).build())
                .build()
                .encode(&mut buf, msg),
        };
        match r {
            Ok(n) => Ok((n, buf)),
            Err(e) => Err(format!("{}", e)),
        }
    })
}

#[derive(Clone, Copy, Debug, PartialEq, Eq, Hash)]
pub struct Opts {
    pub ctx: bool,
    pub key: bool,
    pub validation: bool,
    pub unknown_data: bool,
    pub not_ignore: bool,
}

impl Opts {
    pub fn show(&self) -> String {
        if !self.ctx {
            return "no-context".into();
        }
        format!(
            "key={} validation={} unknown_data={} not_ignore={}",
            self.key as u8, self.validation as u8, self.unknown_data as u8, self.not_ignore as u8
        )
    }
    pub fn default_ctx() -> Opts {
        Opts { ctx: true, key: false, validation: false, unknown_data: false, not_ignore: false }
    }
    pub fn none() -> Opts {
        Opts { ctx: false, key: false, validation: false, unknown_data: false, not_ignore: false }
    }
}

/// All 16 option combinations plus the context-less decoder.
pub fn all_opts() -> Vec<Opts> {
    let mut v = vec![Opts::none()];
    for n in 0..16u8 {
        v.push(Opts {
            ctx: true,
            key: n & 1 != 0,
            validation: n & 2 != 0,
            unknown_data: n & 4 != 0,
            not_ignore: n & 8 != 0,
        });
    }
    v
}

pub fn decoder(o: Opts, key: Option<&HMACKey>) -> MessageDecoder {
    if !o.ctx {
        return MessageDecoderBuilder::default().build();
    }
    let mut c = DecoderContextBuilder::default();
    if o.key {
        if let Some(k) = key {
            c = c.with_key(k.clone());
        }
    }
    if o.validation {
        c = c.with_validation();
    }
    if o.unknown_data {
        c = c.with_unknown_data();
    }
    if o.not_ignore {
        c = c.not_ignore();
    }
    MessageDecoderBuilder::default().with_context(c.build()).build()
}

#[derive(Clone, Debug, PartialEq, Eq, Hash)]
pub struct Decoded {
    pub method: u16,
    pub class: u8,
    pub tid: [u8; 12],
    pub attrs: Vec<L>,
    pub size: usize,
}

/// Ok(Ok(decoded)) | Ok(Err(error text)) | Err(panic)
pub fn decode_with(dec: &MessageDecoder, bytes: &[u8]) -> Result<Result<(Decoded, StunMessage), String>, String> {
    guard(|| match dec.decode(bytes) {
        Ok((m, size)) => {
            let d = Decoded {
                method: m.method().as_u16(),
                class: class_u8(m.class()),
                tid: *m.transaction_id().as_bytes(),
                attrs: m.attributes().iter().map(from_subject).collect(),
                size,
            };
            Ok((d, m))
        }
        Err(e) => Err(format!("{}", e)),
    })
}

pub fn show_msg(m: &LMsg) -> serde_json::Value {
    serde_json::json!({
        "method": m.method, "class": m.class, "tid": crate::refs::crypto::hex(&m.tid),
        "attrs": m.attrs.iter().map(|a| a.show()).collect::<Vec<_>>()
    })
}

/// Equality of two decoded attributes by the value type's OWN `PartialEq` (None when the type has none).
/// Complements the accessor-based logical comparison: a decoder that keeps ignorable bits inside the value makes
/// the two differ here even when every accessor returns the same.
pub fn native_eq(a: &stun_rs::StunAttribute, b: &stun_rs::StunAttribute) -> Option<bool> {
    use stun_rs::StunAttribute as A;
    macro_rules! eqs {
        ($($v:ident),*) => {
            match (a, b) {
                $( (A::$v(x), A::$v(y)) => Some(x == y), )*
                (A::ChangeRequest(_), A::ChangeRequest(_)) => None,
                _ => Some(false),
            }
        };
    }
    eqs!(
        Unknown, AlternateServer, ErrorCode, Fingerprint, MappedAddress, MessageIntegrity, MessageIntegritySha256, Nonce,
        PasswordAlgorithm, PasswordAlgorithms, Realm, Software, UnknownAttributes, UserHash, UserName, XorMappedAddress,
        IceControlled, IceControlling, Priority, UseCandidate, ChannelNumber, LifeTime, XorPeerAddress, XorRelayedAddress,
        Data, RequestedAddressFamily, EvenPort, DontFragment, RequestedTrasport, AdditionalAddressFamily,
        ReservationToken, AddressErrorCode, Icmp, MobilityTicket, OtherAddress, Padding, ResponseOrigin, ResponsePort
    )
}

/// Every way of arriving at a decoder with the options `o`: the builder calls in every order, an option call repeated,
/// a clone of the finished decoder, a decoder built from a clone of the context, `DecoderContext::default()` for the
/// empty option set, `MessageDecoder::default()` for the context-less one. All of them must decode alike.
pub fn decoder_routes(o: Opts, key: Option<&HMACKey>) -> Vec<(String, MessageDecoder)> {
    let mut v: Vec<(String, MessageDecoder)> = vec![];
    let canonical = decoder(o, key);
    v.push(("clone-of-decoder".into(), canonical.clone()));
    v.push(("clone-of-clone".into(), canonical.clone().clone()));
    if !o.ctx {
        v.push(("MessageDecoder::default".into(), MessageDecoder::default()));
        return v;
    }
    if let Some(c) = canonical.get_context() {
        v.push(("context-cloned".into(), MessageDecoderBuilder::default().with_context(c.clone()).build()));
    }
    let mut calls: Vec<u8> = vec![];
    if o.key && key.is_some() {
        calls.push(0);
    }
    if o.validation {
        calls.push(1);
    }
    if o.unknown_data {
        calls.push(2);
    }
    if o.not_ignore {
        calls.push(3);
    }
    if calls.is_empty() {
        v.push(("DecoderContext::default".into(), MessageDecoderBuilder::default().with_context(stun_rs::DecoderContext::default()).build()));
        return v;
    }
    let apply = |order: &[u8]| -> MessageDecoder {
        let mut c = DecoderContextBuilder::default();
        for k in order {
            c = match k {
                0 => c.with_key(key.unwrap().clone()),
                1 => c.with_validation(),
                2 => c.with_unknown_data(),
                _ => c.not_ignore(),
            };
        }
        MessageDecoderBuilder::default().with_context(c.build()).build()
    };
    // all permutations (Heap's algorithm, n <= 4)
    fn perms(a: &mut Vec<u8>, n: usize, out: &mut Vec<Vec<u8>>) {
        if n <= 1 {
            out.push(a.clone());
            return;
        }
        for i in 0..n {
            perms(a, n - 1, out);
            if n % 2 == 0 {
                a.swap(i, n - 1);
            } else {
                a.swap(0, n - 1);
            }
        }
    }
    let mut all = vec![];
    let n = calls.len();
    perms(&mut calls.clone(), n, &mut all);
    all.sort();
    all.dedup();
    for p in all {
        let name = format!("builder-order-{}", p.iter().map(|k| ["key", "validation", "unknown_data", "not_ignore"][*k as usize]).collect::<Vec<_>>().join(">"));
        v.push((name, apply(&p)));
        // each non-key call repeated at the end
        if let Some(last) = p.iter().rev().find(|k| **k != 0) {
            let mut q = p.clone();
            q.push(*last);
            v.push((format!("builder-order-{:?}-repeated-call", q), apply(&q)));
        }
    }
    v
}

pub struct Routes {
    pub per_opts: Vec<(Opts, MessageDecoder, Vec<(String, MessageDecoder)>)>,
}

pub fn all_routes(key: Option<&HMACKey>, opts: &[Opts]) -> Routes {
    Routes { per_opts: opts.iter().map(|o| (*o, decoder(*o, key), decoder_routes(*o, key))).collect() }
}

/// Decode `bytes` through every construction route and report the first route whose result differs from the canonical
/// decoder's. Returns the number of route decodes compared.
pub fn routes_agree(routes: &Routes, bytes: &[u8], rep: &mut crate::util::Report, replay: &dyn Fn() -> serde_json::Value) -> u64 {
    let mut n = 0;
    for (o, canonical, alts) in &routes.per_opts {
        let want = decode_with(canonical, bytes).map(|r| r.map(|x| x.0).map_err(|_| ()));
        for (name, dec) in alts {
            n += 1;
            let got = decode_with(dec, bytes).map(|r| r.map(|x| x.0).map_err(|_| ()));
            if got != want {
                let generic: String = name.split(|c: char| c == '[' || c == '-').take(2).collect::<Vec<_>>().join("-");
                rep.violate(
                    format!("decoder-construction-route-changes-result/{}", generic),
                    format!("route {} under {}: {:?} vs canonical {:?}", name, o.show(), got.as_ref().map(|r| r.as_ref().map(|d| d.attrs.len())), want.as_ref().map(|r| r.as_ref().map(|d| d.attrs.len()))),
                    replay(),
                );
                return n;
            }
        }
    }
    n
}


/// The same attribute OBJECTS (clones taken from an already encoded message) in a new message under another transaction
/// id: attribute values must not remember anything about the message they were encoded in.
pub fn reissue(msg: &StunMessage, tid2: [u8; 12]) -> StunMessage {
    let mut b = StunMessageBuilder::new(msg.method(), msg.class()).with_transaction_id(TransactionId::from(tid2));
    for a in msg.attributes() {
        b = b.with_attribute(a.clone());
    }
    b.build()
}
