mod cu;
mod e3;
mod faults;
mod seeds;
mod menu;
mod props;
mod refs;
mod util;

use std::time::Instant;

fn main() {
    let args: Vec<String> = std::env::args().collect();
    if args.len() < 3 {
        eprintln!("usage: vcheck <Cxx> <quick|thorough|replay> [path]");
        std::process::exit(2);
    }
    util::install_panic_hook();
    util::install_logger();
    if let Err(e) = refs::crypto::self_test() {
        println!("MACHINERY-ERROR {}", e);
        std::process::exit(2);
    }
    if let Err(e) = refs::selftest::run() {
        println!("MACHINERY-ERROR {}", e);
        std::process::exit(2);
    }
    let prop = args[1].clone();
    let mode = args[2].clone();
    let seed = std::env::var("VERIF_SEED").ok().and_then(|s| s.parse::<i64>().ok()).unwrap_or(0);
    if mode == "replay" {
        let path = args.get(3).cloned().unwrap_or_default();
        std::process::exit(props::replay(&prop, &path));
    }
    util::install_watchdog(mode == "thorough", &prop);
    let ctx = util::RunCtx { property: prop.clone(), tier: mode, seed, start: Instant::now() };
    let mut code = match util::guard(|| props::run(&ctx)) {
        Ok(c) => c,
        Err(p) => {
            println!("MACHINERY-ERROR harness panic: {}", p);
            2
        }
    };
    // client-side checks run a second, shallower pass with logging switched off (see util::second_pass)
    const CLIENT_SIDE: [&str; 10] = ["C05", "C06", "C07", "C08", "C10", "C11", "C12", "C13", "C15", "C17"];
    if code != 2 && CLIENT_SIDE.contains(&prop.as_str()) && std::env::var("VERIF_LOG").map(|v| v != "off").unwrap_or(true) {
        util::begin_second_pass();
        let ctx2 = util::RunCtx { property: prop.clone(), tier: ctx.tier.clone(), seed, start: Instant::now() };
        let c2 = match util::guard(|| props::run(&ctx2)) {
            Ok(c) => c,
            Err(p) => {
                println!("MACHINERY-ERROR harness panic in the second pass: {}", p);
                2
            }
        };
        code = if code == 1 || c2 == 1 { 1 } else { code.max(c2) };
    }
    std::process::exit(code);
}
