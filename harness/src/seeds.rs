//! Seed messages for the fault walker: reference-encoded messages over the menus, RFC 5769 vectors,
//! messages with unknown attributes.

use crate::menu::{self, KeySpec};
use crate::refs::codec::{push_tlv, ref_encode, value_bytes, L};

pub struct Seed {
    pub bytes: Vec<u8>,
    pub label: String,
}

pub fn key() -> KeySpec {
    KeySpec::Short("VOkJxbRl1RmTxUk/WvJxBt")
}

fn tails_small() -> Vec<Vec<L>> {
    vec![vec![], vec![L::Mi, L::Fp], vec![L::Mi, L::Sha, L::Fp]]
}

/// A message made of unknown attributes (comprehension-required and -optional) with 0..5 value bytes.
pub fn unknown_attr_msgs() -> Vec<Seed> {
    let mut v = vec![];
    for ty in [0x0002u16, 0x7FFF, 0x8003, 0xFFFF] {
        for n in 0..=5usize {
            let mut m = vec![0x01, 0x01, 0, 0, 0x21, 0x12, 0xA4, 0x42];
            m.extend_from_slice(&[9u8; 12]);
            push_tlv(&mut m, 0x0024, &[0, 0, 0, 1]);
            push_tlv(&mut m, ty, &(1..=n as u8).collect::<Vec<u8>>());
            push_tlv(&mut m, 0x8022, b"sw");
            let l = (m.len() - 20) as u16;
            m[2..4].copy_from_slice(&l.to_be_bytes());
            v.push(Seed { bytes: m, label: format!("unknown-{:#06x}-len{}", ty, n) });
        }
    }
    v
}

pub fn seeds(thorough: bool) -> Vec<Seed> {
    let raw = key().ref_bytes();
    let full = menu::body_menu(true);
    let reduced = menu::body_menu(false);
    let mut v = vec![];
    // singles over the full menu (values up to 520 bytes) x 3 tails
    let mut seen_wire: std::collections::HashSet<(u16, Vec<u8>)> = std::collections::HashSet::new();
    for a in &full {
        if value_bytes(a, &[0; 12]).len() > if thorough { 1100 } else { 300 } {
            continue;
        }
        // seeds are byte strings: menu values that differ only in how the text was handed to the constructor (quoted forms,
        // white space around it) give the same bytes - one seed per wire value (quick tier)
        if !thorough && !seen_wire.insert((a.type_code(), value_bytes(a, &[0; 12]))) {
            continue;
        }
        for t in tails_small() {
            let mut attrs = vec![a.clone()];
            attrs.extend(t.clone());
            let class = if matches!(a, L::ErrorCode(..)) { 3 } else { 2 };
            let lm = menu::lmsg(1, class, menu::RFC5769_TID, attrs);
            v.push(Seed { bytes: ref_encode(&lm, Some(&raw)), label: format!("{}+{}tail", a.kind(), t.len()) });
        }
    }
    // pairs over the reduced menu, short values; quick: one alternating tail per pair, thorough: both tails
    let pm: Vec<&L> = reduced.iter().filter(|a| value_bytes(a, &[0; 12]).len() <= 40).collect();
    for (i, a) in pm.iter().enumerate() {
        for (j, b) in pm.iter().enumerate() {
            let ts = if thorough { vec![vec![], vec![L::Sha, L::Fp]] } else if (i + j) % 2 == 0 { vec![vec![]] } else { vec![vec![L::Sha, L::Fp]] };
            for t in ts {
                let mut attrs = vec![(*a).clone(), (*b).clone()];
                attrs.extend(t.clone());
                let lm = menu::lmsg(3, 3, [0x42; 12], attrs);
                v.push(Seed { bytes: ref_encode(&lm, Some(&raw)), label: format!("{}+{}+{}tail", a.kind(), b.kind(), t.len()) });
            }
        }
    }
    for (n, b) in [
        ("rfc5769-2.1", stun_vectors::SAMPLE_REQUEST.to_vec()),
        ("rfc5769-2.2", stun_vectors::SAMPLE_IPV4_RESPONSE.to_vec()),
        ("rfc5769-2.3", stun_vectors::SAMPLE_IPV6_RESPONSE.to_vec()),
        ("rfc5769-2.4", stun_vectors::SAMPLE_REQUEST_LONG_TERM_AUTH.to_vec()),
        ("rfc5769-sha256", stun_vectors::SAMPLE_REQUEST_LONG_TERM_AUTH_SHA256.to_vec()),
    ] {
        v.push(Seed { bytes: b, label: n.to_string() });
    }
    v.extend(unknown_attr_msgs());
    v
}
