//! Common plumbing: panic capture, reports, evidence files, replay files, known findings.

use serde_json::{json, Value};
use std::collections::{BTreeMap, BTreeSet, HashSet};
use std::hash::{Hash, Hasher};
use std::panic::{catch_unwind, AssertUnwindSafe};
use std::sync::Mutex;
use std::time::Instant;

/// Where evidence, replays and the known-findings file live. Overridable (VERIF_DIR_OVERRIDE) only for the detection
/// self-test, which runs a scratch copy of the harness against a scratch copy of the repository.
pub fn verif_dir() -> String {
    std::env::var("VERIF_DIR_OVERRIDE").unwrap_or_else(|_| "/verif".to_string())
}

thread_local! {
    static LAST_PANIC: std::cell::RefCell<Option<String>> = const { std::cell::RefCell::new(None) };
}

/// Install a silent panic hook that records message + location per thread.
/// A logger at Trace level that formats every record into a scratch buffer and throws it away: the library's `log`
/// macros evaluate their arguments only when the level is enabled, so without it every expression inside a
/// `debug!(..)` is dead code for the checks (the process-wide log level is part of the environment).
struct FormattingSink;

impl log::Log for FormattingSink {
    fn enabled(&self, _m: &log::Metadata) -> bool {
        true
    }
    fn log(&self, record: &log::Record) {
        use std::fmt::Write as _;
        thread_local! { static SCRATCH: std::cell::RefCell<String> = std::cell::RefCell::new(String::new()); }
        SCRATCH.with(|s| {
            if let Ok(mut s) = s.try_borrow_mut() {
                s.clear();
                let _ = write!(s, "{}", record.args());
            }
        });
    }
    fn flush(&self) {}
}

static SECOND_PASS: std::sync::atomic::AtomicBool = std::sync::atomic::AtomicBool::new(false);

/// True during the second, shallower pass of a client-side check that runs with logging switched OFF (the default of an
/// application that installs no logger): the arguments of the library's log statements are then not evaluated.
pub fn second_pass() -> bool {
    SECOND_PASS.load(std::sync::atomic::Ordering::Relaxed)
}

pub fn begin_second_pass() {
    SECOND_PASS.store(true, std::sync::atomic::Ordering::Relaxed);
    log::set_max_level(log::LevelFilter::Off);
}

/// `VERIF_LOG=off` leaves the log level at its default (Off).
pub fn install_logger() {
    if std::env::var("VERIF_LOG").map(|v| v == "off").unwrap_or(false) {
        return;
    }
    static SINK: FormattingSink = FormattingSink;
    if log::set_logger(&SINK).is_ok() {
        log::set_max_level(log::LevelFilter::Trace);
    }
}

/// resident set size of this process in GiB (0.0 when /proc is unreadable)
pub fn rss_gib() -> f64 {
    std::fs::read_to_string("/proc/self/statm")
        .ok()
        .and_then(|s| s.split_whitespace().nth(1).and_then(|p| p.parse::<f64>().ok()))
        .map(|pages| pages * 4096.0 / (1u64 << 30) as f64)
        .unwrap_or(0.0)
}

/// memory above which explorers stop extending their frontier and report a cap (`VERIF_RSS_CAP_GB`, default 30)
pub fn rss_cap_gib() -> f64 {
    std::env::var("VERIF_RSS_CAP_GB").ok().and_then(|v| v.parse().ok()).unwrap_or(30.0)
}

/// The first few distinct violations any worker recorded, kept process-wide so that the watchdog can still report them when a
/// broken subject makes the exploration itself crawl (a subject whose cost grows with every refused input, say).
pub static EARLY_VIOLATIONS: Mutex<Vec<(String, String, Value)>> = Mutex::new(Vec::new());

fn note_early(key: &str, detail: &str, replay: &Value) {
    if let Ok(mut v) = EARLY_VIOLATIONS.try_lock() {
        if v.len() < 12 && !v.iter().any(|x| x.0 == key) {
            v.push((key.to_string(), detail.to_string(), replay.clone()));
        }
    }
}

/// Wall-clock watchdog. A check that is still running after the limit is a machinery failure, not a verdict - unless violations
/// (other than listed known findings) have already been demonstrated: a counterexample found is a counterexample whether or not
/// the exploration around it was completed, so the run then ends as a violation (also after a shorter, "soft" limit: the only
/// thing more time could add is more findings).
pub fn install_watchdog(thorough: bool, property: &str) {
    let limit = std::env::var("VERIF_WALL_CAP_S").ok().and_then(|v| v.parse::<u64>().ok()).unwrap_or(if thorough { 3 * 3600 } else { 1200 });
    let soft = if thorough { 1800 } else { 150 };
    let property = property.to_string();
    std::thread::spawn(move || {
        let start = Instant::now();
        loop {
            std::thread::sleep(std::time::Duration::from_secs(5));
            let el = start.elapsed().as_secs();
            if el < soft.min(limit) {
                continue;
            }
            let early: Vec<(String, String, Value)> = EARLY_VIOLATIONS.lock().map(|v| v.clone()).unwrap_or_default();
            let known = load_known();
            let unlisted: Vec<&(String, String, Value)> = early
                .iter()
                .filter(|(k, _, _)| {
                    !known.iter().any(|f| {
                        f.get("property").and_then(|x| x.as_str()) == Some(property.as_str())
                            && f.get("key").and_then(|x| x.as_str()) == Some(k.as_str())
                            && f.get("status").and_then(|x| x.as_str()) == Some("known")
                    })
                })
                .collect();
            if !unlisted.is_empty() {
                let _ = std::fs::create_dir_all(format!("{}/replays", verif_dir()));
                println!("exploration stopped after {} s: violations had been found and the run was still going (a broken subject can make every further step slower); reporting what was found", el);
                for (key, detail, replay) in unlisted {
                    let digest = format!("{:016x}", hash64(key));
                    let path = format!("{}/replays/{}-{}.json", verif_dir(), property, digest);
                    let body = json!({"property": property, "finding_key": key, "detail": detail, "replay": replay, "note": "reported by the watchdog before the exploration finished"});
                    let _ = std::fs::write(&path, serde_json::to_string_pretty(&body).unwrap());
                    println!("  violation key={} detail={}", key, detail);
                    println!("VIOLATION property={} replay={}", property, path);
                }
                std::process::exit(1);
            }
            if el >= limit {
                println!("MACHINERY-ERROR wall-clock cap of {} s reached (VERIF_WALL_CAP_S to change)", limit);
                std::process::exit(2);
            }
        }
    });
}

pub fn install_panic_hook() {
    std::panic::set_hook(Box::new(|info| {
        let msg = if let Some(s) = info.payload().downcast_ref::<&str>() {
            s.to_string()
        } else if let Some(s) = info.payload().downcast_ref::<String>() {
            s.clone()
        } else {
            "<non-string panic>".to_string()
        };
        let loc = info
            .location()
            .map(|l| format!("{}:{}", l.file(), l.line()))
            .unwrap_or_default();
        LAST_PANIC.with(|p| *p.borrow_mut() = Some(format!("{} @ {}", msg, loc)));
    }));
}

/// Run `f`, converting a panic into Err(message @ location).
pub fn guard<T>(f: impl FnOnce() -> T) -> Result<T, String> {
    match catch_unwind(AssertUnwindSafe(f)) {
        Ok(v) => Ok(v),
        Err(_) => Err(LAST_PANIC
            .with(|p| p.borrow_mut().take())
            .unwrap_or_else(|| "<panic>".to_string())),
    }
}

/// Strip line numbers etc. so a panic site forms a stable finding key.
pub fn panic_site(msg: &str) -> String {
    // "… @ /repo/stun-rs/src/x.rs:123" -> "stun-rs/src/x.rs"
    match msg.rsplit_once(" @ ") {
        Some((_, loc)) => {
            let file = loc.rsplit_once(':').map(|(f, _)| f).unwrap_or(loc);
            file.trim_start_matches("/repo/").to_string()
        }
        None => "unknown".to_string(),
    }
}

pub fn hash64<T: Hash + ?Sized>(t: &T) -> u64 {
    let mut h = std::collections::hash_map::DefaultHasher::new();
    t.hash(&mut h);
    h.finish()
}

#[derive(Clone, Debug)]
pub struct Violation {
    /// specific finding key: "<sub-obligation>/<class of input or history>"
    pub key: String,
    pub detail: String,
    pub replay: Value,
}

/// Per-run accumulator. Cheap to create per worker and merge.
#[derive(Default)]
pub struct Report {
    pub evaluations: u64,
    pub distinct: HashSet<u64>,
    pub outcomes: BTreeSet<String>,
    pub symbols: BTreeMap<String, u64>,
    pub samples: Vec<Value>,
    pub violations: BTreeMap<String, (Violation, u64)>,
    pub states: u64,
    pub transitions: u64,
    pub extra: BTreeMap<String, Value>,
    pub capped: Option<String>,
    /// cases that are distinct by construction (unique index tuples) and non-trivial by the rule
    pub distinct_counted: u64,
}

impl Report {
    pub fn new() -> Self {
        Self::default()
    }
    pub fn eval(&mut self) {
        self.evaluations += 1;
    }
    pub fn nontrivial<T: Hash + ?Sized>(&mut self, t: &T) {
        self.distinct.insert(hash64(t));
    }
    pub fn nontrivial_by_construction(&mut self) {
        self.distinct_counted += 1;
    }
    pub fn outcome(&mut self, s: impl Into<String>) {
        let s = s.into();
        if !self.outcomes.contains(&s) {
            self.outcomes.insert(s);
        }
    }
    pub fn sym(&mut self, s: &str) {
        *self.symbols.entry(s.to_string()).or_insert(0) += 1;
    }
    pub fn sym_n(&mut self, s: &str, n: u64) {
        *self.symbols.entry(s.to_string()).or_insert(0) += n;
    }
    pub fn sample(&mut self, v: Value) {
        if self.samples.len() < 6 {
            self.samples.push(v);
        }
    }
    pub fn violate(&mut self, key: impl Into<String>, detail: impl Into<String>, replay: Value) {
        let key = key.into();
        match self.violations.get_mut(&key) {
            Some((v, n)) => {
                *n += 1;
                if *n > 200 {
                    return;
                }
                // keep the smallest replay (among the first 200 occurrences per worker) so the reported case is short
                let new_s = replay.to_string();
                let old_s = v.replay.to_string();
                if (new_s.len(), &new_s) < (old_s.len(), &old_s) {
                    v.replay = replay;
                    v.detail = detail.into();
                }
            }
            None => {
                let d: String = detail.into();
                note_early(&key, &d, &replay);
                let detail = d;
                self.violations.insert(
                    key.clone(),
                    (
                        Violation {
                            key,
                            detail: detail.into(),
                            replay,
                        },
                        1,
                    ),
                );
            }
        }
    }
    /// number of violation occurrences recorded so far (all findings)
    pub fn total_occurrences(&self) -> u64 {
        self.violations.values().map(|(_, n)| *n as u64).sum()
    }
    pub fn merge(&mut self, o: Report) {
        self.evaluations += o.evaluations;
        self.distinct.extend(o.distinct);
        self.outcomes.extend(o.outcomes);
        for (k, v) in o.symbols {
            *self.symbols.entry(k).or_insert(0) += v;
        }
        for s in o.samples {
            if self.samples.len() < 6 {
                self.samples.push(s);
            }
        }
        self.distinct_counted += o.distinct_counted;
        for (k, (v, n)) in o.violations {
            match self.violations.get_mut(&k) {
                Some((w, m)) => {
                    *m += n;
                    let new_s = v.replay.to_string();
                    let old_s = w.replay.to_string();
                    if (new_s.len(), &new_s) < (old_s.len(), &old_s) {
                        *w = v;
                    }
                }
                None => {
                    self.violations.insert(k, (v, n));
                }
            }
        }
        self.states += o.states;
        self.transitions += o.transitions;
        for (k, v) in o.extra {
            // numeric extras are summed, others overwritten
            match (self.extra.get(&k).and_then(|x| x.as_u64()), v.as_u64()) {
                (Some(a), Some(b)) if k.starts_with("max_") => {
                    self.extra.insert(k, json!(a.max(b)));
                }
                (Some(a), Some(b)) => {
                    self.extra.insert(k, json!(a + b));
                }
                _ => {
                    self.extra.insert(k, v);
                }
            }
        }
        if self.capped.is_none() {
            self.capped = o.capped;
        }
    }
    pub fn add_extra(&mut self, k: &str, n: u64) {
        let cur = self.extra.get(k).and_then(|x| x.as_u64()).unwrap_or(0);
        self.extra.insert(k.to_string(), json!(cur + n));
    }
}

/// Shared collector for rayon workers.
pub struct Shared(pub Mutex<Report>);
impl Shared {
    pub fn new() -> Self {
        Shared(Mutex::new(Report::new()))
    }
    pub fn merge(&self, r: Report) {
        self.0.lock().unwrap().merge(r);
    }
    pub fn into_inner(self) -> Report {
        self.0.into_inner().unwrap()
    }
}

pub struct RunCtx {
    pub property: String,
    pub tier: String,
    pub seed: i64,
    pub start: Instant,
}

impl RunCtx {
    pub fn thorough(&self) -> bool {
        self.tier == "thorough"
    }
}

pub struct Finish {
    pub level: &'static str,
    pub rule: String,
    pub assumptions: Vec<String>,
    /// symbols that must have fired at least once (vacuity guard)
    pub required_symbols: Vec<&'static str>,
    /// at least this many distinct outcomes must be seen (vacuity guard)
    pub min_outcomes: usize,
    pub exhaustive: bool,
    pub bounds: Value,
}

fn load_known() -> Vec<Value> {
    let p = format!("{}/known_findings.json", verif_dir());
    match std::fs::read_to_string(&p) {
        Ok(s) => serde_json::from_str::<Value>(&s)
            .ok()
            .and_then(|v| v.get("findings").and_then(|f| f.as_array().cloned()))
            .unwrap_or_default(),
        Err(_) => vec![],
    }
}

/// Writes evidence, replay files, prints protocol lines; returns the process exit code.
pub fn finish(ctx: &RunCtx, mut rep: Report, fin: Finish) -> i32 {
    let known = load_known();
    let is_known = |key: &str| -> Option<String> {
        known.iter().find_map(|k| {
            let p = k.get("property").and_then(|x| x.as_str())?;
            let kk = k.get("key").and_then(|x| x.as_str())?;
            let st = k.get("status").and_then(|x| x.as_str())?;
            if p == ctx.property && kk == key && st == "known" {
                Some(
                    k.get("what")
                        .and_then(|x| x.as_str())
                        .unwrap_or("")
                        .to_string(),
                )
            } else {
                None
            }
        })
    };

    let mut machinery_error: Option<String> = None;
    if second_pass() {
        // the second pass only adds to the evidence of the first and reports its own violations
        let mut new_violations = 0;
        let _ = std::fs::create_dir_all(format!("{}/replays", verif_dir()));
        for (key, (v, count)) in &rep.violations {
            if let Some(what) = is_known(key) {
                println!("KNOWN-FINDING: property={} {} ({}; observed {} times with logging off)", ctx.property, key, what, count);
                continue;
            }
            new_violations += 1;
            let digest = format!("{:016x}", hash64(&format!("{}#logging-off", key)));
            let path = format!("{}/replays/{}-{}.json", verif_dir(), ctx.property, digest);
            let body = json!({"property": ctx.property, "finding_key": key, "detail": v.detail, "occurrences": count, "log_level": "off", "replay": v.replay});
            let _ = std::fs::write(&path, serde_json::to_string_pretty(&body).unwrap());
            println!("  violation key={} detail={} (seen in the pass with logging OFF)", key, v.detail);
            println!("VIOLATION property={} replay={}", ctx.property, path);
        }
        let evp = format!("{}/evidence/{}.json", verif_dir(), ctx.property);
        if let Ok(txt) = std::fs::read_to_string(&evp) {
            if let Ok(mut ev) = serde_json::from_str::<Value>(&txt) {
                ev["coverage"]["second_pass_logging_off"] = json!({
                    "what": "the same check once more with the log level Off (first pass: Trace with a formatting sink) and shallower bounds",
                    "states": rep.states, "transitions": rep.transitions, "evaluations": rep.evaluations,
                    "distinct_outcomes": rep.outcomes.len(), "violations": new_violations, "bounds": fin.bounds,
                });
                if new_violations > 0 {
                    ev["violations"] = json!(ev["violations"].as_u64().unwrap_or(0) + new_violations);
                }
                let _ = std::fs::write(&evp, serde_json::to_string_pretty(&ev).unwrap());
            }
        }
        println!(
            "{} {} (second pass, logging off): states={} transitions={} outcomes={} violations={} wall={:.1}s",
            ctx.property, ctx.tier, rep.states, rep.transitions, rep.outcomes.len(), new_violations, ctx.start.elapsed().as_secs_f64()
        );
        return if new_violations > 0 { 1 } else { 0 };
    }
    for s in &fin.required_symbols {
        if rep.symbols.get(*s).copied().unwrap_or(0) == 0 {
            machinery_error = Some(format!("vacuity guard: symbol '{}' never fired", s));
        }
    }
    if rep.outcomes.len() < fin.min_outcomes {
        machinery_error = Some(format!(
            "vacuity guard: {} distinct outcomes < {}",
            rep.outcomes.len(),
            fin.min_outcomes
        ));
    }

    let mut new_violations = 0;
    let mut known_seen = vec![];
    let _ = std::fs::create_dir_all(format!("{}/replays", verif_dir()));
    let mut lines = vec![];
    for (key, (v, count)) in &rep.violations {
        if let Some(what) = is_known(key) {
            known_seen.push(key.clone());
            lines.push(format!(
                "KNOWN-FINDING: property={} {} ({}; observed {} times)",
                ctx.property, key, what, count
            ));
            continue;
        }
        new_violations += 1;
        let digest = format!("{:016x}", hash64(key));
        let path = format!("{}/replays/{}-{}.json", verif_dir(), ctx.property, digest);
        let body = json!({
            "property": ctx.property,
            "finding_key": key,
            "detail": v.detail,
            "occurrences": count,
            "replay": v.replay,
        });
        let _ = std::fs::write(&path, serde_json::to_string_pretty(&body).unwrap());
        lines.push(format!("  violation key={} detail={}", key, v.detail));
        lines.push(format!("VIOLATION property={} replay={}", ctx.property, path));
    }

    let wall = ctx.start.elapsed().as_secs_f64();
    let exhaustive = fin.exhaustive && rep.capped.is_none();
    let mut coverage = serde_json::Map::new();
    coverage.insert("evaluations".into(), json!(rep.evaluations.max(rep.transitions)));
    coverage.insert("distinct_nontrivial".into(), json!(rep.distinct.len() as u64 + rep.distinct_counted));
    coverage.insert("rule".into(), json!(fin.rule));
    if rep.samples.is_empty() {
        rep.samples.push(json!("no sample recorded"));
    }
    coverage.insert("samples".into(), json!(rep.samples));
    if fin.level == "model_checking" {
        coverage.insert("states".into(), json!(rep.states));
        coverage.insert("transitions".into(), json!(rep.transitions));
        coverage.insert("traces_validated_against_impl".into(), json!(rep.transitions));
    }
    coverage.insert("exhaustive".into(), json!(exhaustive));
    coverage.insert("bounds".into(), fin.bounds.clone());
    coverage.insert("distinct_outcomes".into(), json!(rep.outcomes.len()));
    coverage.insert(
        "outcomes".into(),
        json!(rep.outcomes.iter().take(40).cloned().collect::<Vec<_>>()),
    );
    coverage.insert("symbol_counts".into(), json!(rep.symbols));
    if let Some(c) = &rep.capped {
        coverage.insert("cap_hit".into(), json!(c));
    }
    coverage.insert("known_findings_reobserved".into(), json!(known_seen));
    for (k, v) in &rep.extra {
        coverage.insert(k.clone(), v.clone());
    }
    let ev = json!({
        "property_id": ctx.property,
        "tier": ctx.tier,
        "seed": ctx.seed,
        "level": fin.level,
        "coverage": Value::Object(coverage),
        "assumptions": fin.assumptions,
        "wall_s": wall,
        "violations": new_violations,
    });
    let _ = std::fs::create_dir_all(format!("{}/evidence", verif_dir()));
    let evp = format!("{}/evidence/{}.json", verif_dir(), ctx.property);
    if let Err(e) = std::fs::write(&evp, serde_json::to_string_pretty(&ev).unwrap()) {
        machinery_error = Some(format!("cannot write evidence {}: {}", evp, e));
    }

    for l in lines {
        println!("{}", l);
    }
    println!(
        "{} {}: evaluations={} states={} transitions={} distinct_nontrivial={} outcomes={} violations={} known={} wall={:.1}s exhaustive={}",
        ctx.property,
        ctx.tier,
        rep.evaluations,
        rep.states,
        rep.transitions,
        rep.distinct.len() as u64 + rep.distinct_counted,
        rep.outcomes.len(),
        new_violations,
        known_seen.len(),
        wall,
        exhaustive
    );
    if new_violations > 0 {
        return 1;
    }
    if let Some(m) = machinery_error {
        println!("MACHINERY-ERROR {}", m);
        return 2;
    }
    0
}
