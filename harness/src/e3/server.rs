//! R-server: reply generator for every reply kind of the C05/C07/C08/C10/C17 alphabets, built with R-codec +
//! R-crypto (never with the subject's encoder), and the RFC 8489 §9.2.4 acceptance judge.

use super::world::{Mech, World, USER};
use crate::menu::cookie_nonce;
use crate::refs::codec::{self, ref_encode_with, ref_parse, Addr, LMsg, Mac, L};
use crate::refs::crypto;

pub const REALM: &str = "example.org";

#[derive(Clone, Copy, Debug, PartialEq, Eq, Hash, serde::Serialize, serde::Deserialize)]
pub enum RClass {
    Success,
    Error(u16),
    /// error-response class without an ERROR-CODE attribute
    ErrorNoCode,
    Indication,
    Request,
}

#[derive(Clone, Copy, Debug, PartialEq, Eq, Hash, serde::Serialize, serde::Deserialize)]
pub enum RMac {
    None,
    Mi,
    Sha,
    Both,
    BadMi,
    BadSha,
    MiOtherPass,
    ShaOtherPass,
    /// MESSAGE-INTEGRITY wrong in two bytes four apart with the same mask (a folding comparison cancels them)
    FoldMi,
    /// MESSAGE-INTEGRITY-SHA256 with every byte inverted
    FoldSha,
}

#[derive(Clone, Copy, Debug, PartialEq, Eq, Hash, serde::Serialize, serde::Deserialize)]
pub enum RFp {
    Absent,
    Valid,
    Bad,
    /// FINGERPRINT before the last attribute, CRC computed over the prefix with the final header length
    MisplacedWrongLen,
    /// a wrong FINGERPRINT followed by an unknown attribute whose 8-byte value reads like a FINGERPRINT attribute
    /// (80 28 00 04 + the CRC of everything before those 8 bytes): the last 8 bytes of the message "verify"
    BadThenDecoy,
    /// a wrong FINGERPRINT followed by a second FINGERPRINT that is right for its own position
    BadThenSecondFp,
    /// FINGERPRINT carrying the value of the FINGERPRINT of the buffer delivered just before (a value the client has seen
    /// - and possibly verified - on another message)
    ValueOfPrevious,
    /// a wrong / no FINGERPRINT on a message that also carries an unknown comprehension-required attribute (a client
    /// that handles such attributes must not do so before it has checked the FINGERPRINT)
    BadWithUnknownRequired,
    AbsentWithUnknownRequired,
    /// a VALID FINGERPRINT, in a message that also carries an unknown comprehension-required attribute
    ValidWithUnknownRequired,
    /// a wrong FINGERPRINT, and BEYOND the end of the message (the header length is not changed) 12 more bytes in the
    /// buffer: the little-endian CRC-32 of the message followed by `80 28 00 04 00 00 00 00`; the FINGERPRINT value is the
    /// CRC-32 residue constant XOR 0x5354554e, so "the last 8 bytes of the buffer are a FINGERPRINT whose value matches the
    /// CRC of everything before them" holds although the message's own FINGERPRINT is wrong
    BadWithResidueTrailer,
    /// a wrong FINGERPRINT, and beyond the end of the message a FINGERPRINT-shaped trailer carrying the CRC that would be
    /// right for the message
    BadWithLookalikeTrailer,
}

#[derive(Clone, Copy, Debug, PartialEq, Eq, Hash, serde::Serialize, serde::Deserialize)]
pub enum NonceKind {
    Absent,
    Plain(u8),
    /// (password-algorithms bit, anonymity bit, generation)
    Cookie(bool, bool, u8),
    /// the same, with unassigned feature bits set as well (a client ignores what it does not know: the assigned bits
    /// keep their meaning)
    CookieX(bool, bool, u8),
}

#[derive(Clone, Copy, Debug, PartialEq, Eq, Hash, serde::Serialize, serde::Deserialize)]
pub enum PasKind {
    Absent,
    Md5,
    Sha256,
    Md5Sha256,
    Sha256Md5,
    Unsupported,
    /// an algorithm the client does not know, then SHA-256 (the list is to be echoed as it was sent)
    UnknownSha256,
    /// MD5, then an unknown algorithm with parameters
    Md5UnknownWithParams,
}

#[derive(Clone, Copy, Debug, PartialEq, Eq, Hash, serde::Serialize, serde::Deserialize)]
pub struct Chal {
    pub realm: bool,
    pub nonce: NonceKind,
    pub pas: PasKind,
    /// which realm the challenge names: 0 = REALM, 1 = the same letters in another case, 2 = another realm
    #[serde(default)]
    pub realm_v: u8,
    /// order of the challenge attributes in the reply: 0 = REALM, NONCE, PASSWORD-ALGORITHMS; 1 = the reverse
    /// (RFC 8489 imposes no order on them)
    #[serde(default)]
    pub order: u8,
}

pub fn realm_name(v: u8) -> &'static str {
    match v {
        0 => REALM,
        1 => "EXAMPLE.org",
        _ => "other.example",
    }
}

/// value of the REALM attribute the request carries (the realm its sender keyed it for)
pub fn request_realm(req: &[u8]) -> Option<String> {
    let p = ref_parse(req).ok()?;
    p.tlvs.iter().find(|t| t.ty == codec::T_REALM).and_then(|t| String::from_utf8(t.value.clone()).ok())
}

#[derive(Clone, Copy, Debug, PartialEq, Eq, Hash, serde::Serialize, serde::Deserialize)]
pub struct Reply {
    pub class: RClass,
    pub mac: RMac,
    pub fp: RFp,
    pub chal: Option<Chal>,
}

impl Reply {
    pub fn plain(class: RClass) -> Reply {
        Reply { class, mac: RMac::None, fp: RFp::Absent, chal: None }
    }
    pub fn with_mac(mut self, m: RMac) -> Reply {
        self.mac = m;
        self
    }
    pub fn with_fp(mut self, f: RFp) -> Reply {
        self.fp = f;
        self
    }
    pub fn with_chal(mut self, c: Chal) -> Reply {
        self.chal = Some(c);
        self
    }
    pub fn show(&self) -> String {
        format!("{:?}", self)
    }
}

pub fn nonce_string(n: NonceKind) -> Option<String> {
    match n {
        NonceKind::Absent => None,
        NonceKind::Plain(g) => Some(format!("nonce-{}", g)),
        NonceKind::Cookie(pa, anon, g) => {
            let b = (if pa { 0x80 } else { 0 }) | (if anon { 0x40 } else { 0 });
            Some(cookie_nonce([b, 0, 0], &format!("n{}", g)))
        }
        NonceKind::CookieX(pa, anon, g) => {
            let b = (if pa { 0x80 } else { 0 }) | (if anon { 0x40 } else { 0 }) | 0x15;
            Some(cookie_nonce([b, 0x20, 0x01], &format!("x{}", g)))
        }
    }
}

pub fn pas_list(p: PasKind) -> Option<Vec<(u16, Vec<u8>)>> {
    match p {
        PasKind::Absent => None,
        PasKind::Md5 => Some(vec![(1, vec![])]),
        PasKind::Sha256 => Some(vec![(2, vec![])]),
        PasKind::Md5Sha256 => Some(vec![(1, vec![]), (2, vec![])]),
        PasKind::Sha256Md5 => Some(vec![(2, vec![]), (1, vec![])]),
        PasKind::Unsupported => Some(vec![(7, vec![1, 2])]),
        PasKind::UnknownSha256 => Some(vec![(3, vec![]), (2, vec![])]),
        PasKind::Md5UnknownWithParams => Some(vec![(1, vec![]), (9, vec![1, 2, 3])]),
    }
}

/// long-term key by R-crypto: alg 1 = MD5, 2 = SHA-256 of "user:realm:password"
pub fn lt_key(alg: u16, realm: &str, pass: &str) -> Vec<u8> {
    lt_key_for(USER, alg, realm, pass)
}

/// the same for an arbitrary user name (`pass` is the enforced password)
pub fn lt_key_for(user: &str, alg: u16, realm: &str, pass: &str) -> Vec<u8> {
    let s = format!("{}:{}:{}", user, realm, pass);
    if alg == 2 {
        crypto::sha256(s.as_bytes()).to_vec()
    } else {
        crypto::md5(s.as_bytes()).to_vec()
    }
}

/// PASSWORD-ALGORITHM the request names (None when absent)
pub fn request_algorithm(req: &[u8]) -> Option<u16> {
    let p = ref_parse(req).ok()?;
    p.tlvs
        .iter()
        .find(|t| t.ty == codec::T_PASSWORD_ALGORITHM && t.value.len() >= 2)
        .map(|t| u16::from_be_bytes([t.value[0], t.value[1]]))
}

/// Key a server would authenticate its reply to `req` with.
pub fn reply_key(w: &World, req: Option<&[u8]>, other_pass: bool) -> Vec<u8> {
    let c = w.cfg.creds();
    let pass = if other_pass { c.other_pass_key } else { c.pass_key };
    match w.cfg.mech {
        Mech::LongTerm => lt_key_for(c.user, req.and_then(request_algorithm).unwrap_or(1), &req.and_then(request_realm).unwrap_or_else(|| REALM.to_string()), pass),
        _ => pass.as_bytes().to_vec(),
    }
}

pub const UNKNOWN_ID: [u8; 12] = [0xEE; 12];

/// Bytes of the reply `r` addressed to transaction `tid`, answering request bytes `req` (if known).
pub fn build_reply(w: &World, tid: [u8; 12], req: Option<&[u8]>, r: &Reply) -> Vec<u8> {
    let (class, mut attrs): (u8, Vec<L>) = match r.class {
        RClass::Success => (2, vec![L::XorMappedAddress(Addr::V4([192, 0, 2, 1], 32853))]),
        RClass::Error(code) => (3, vec![L::ErrorCode(code, "".into())]),
        RClass::ErrorNoCode => (3, vec![L::Software("no-error-code".into())]),
        RClass::Indication => (1, vec![L::Software("ind".into())]),
        RClass::Request => (0, vec![L::Software("req".into())]),
    };
    if matches!(r.fp, RFp::BadWithUnknownRequired | RFp::AbsentWithUnknownRequired | RFp::ValidWithUnknownRequired) {
        attrs.push(L::Unknown(0x7F01, Some(vec![1, 2, 3, 4])));
    }
    if let Some(c) = &r.chal {
        let mut ch: Vec<L> = vec![];
        if c.realm {
            ch.push(L::Realm(realm_name(c.realm_v).into()));
        }
        if let Some(n) = nonce_string(c.nonce) {
            ch.push(L::Nonce(n));
        }
        if let Some(p) = pas_list(c.pas) {
            ch.push(L::PasswordAlgorithms(p));
        }
        if c.order == 1 {
            ch.reverse();
        }
        attrs.extend(ch);
    }
    let mut macs = vec![Mac::Good; attrs.len()];
    let other = matches!(r.mac, RMac::MiOtherPass | RMac::ShaOtherPass);
    match r.mac {
        RMac::None => {}
        RMac::Mi | RMac::MiOtherPass => {
            attrs.push(L::Mi);
            macs.push(Mac::Good);
        }
        RMac::Sha | RMac::ShaOtherPass => {
            attrs.push(L::Sha);
            macs.push(Mac::Good);
        }
        RMac::Both => {
            attrs.push(L::Mi);
            attrs.push(L::Sha);
            macs.push(Mac::Good);
            macs.push(Mac::Good);
        }
        RMac::BadMi => {
            attrs.push(L::Mi);
            macs.push(Mac::Bad);
        }
        RMac::BadSha => {
            attrs.push(L::Sha);
            macs.push(Mac::Bad);
        }
        RMac::FoldMi => {
            attrs.push(L::Mi);
            macs.push(Mac::Fold);
        }
        RMac::FoldSha => {
            attrs.push(L::Sha);
            macs.push(Mac::Fold);
        }
    }
    match r.fp {
        RFp::Absent | RFp::MisplacedWrongLen | RFp::AbsentWithUnknownRequired => {}
        RFp::BadThenDecoy | RFp::BadThenSecondFp | RFp::BadWithUnknownRequired | RFp::BadWithResidueTrailer | RFp::BadWithLookalikeTrailer => {
            attrs.push(L::Fp);
            macs.push(Mac::Bad);
        }
        RFp::Valid | RFp::ValueOfPrevious | RFp::ValidWithUnknownRequired => {
            attrs.push(L::Fp);
            macs.push(Mac::Good);
        }
        RFp::Bad => {
            attrs.push(L::Fp);
            macs.push(Mac::Bad);
        }
    }
    let key = reply_key(w, req, other);
    let lm = LMsg { method: w.cfg.method, class, tid, attrs };
    let mut bytes = ref_encode_with(&lm, Some(&key), &macs);
    if r.fp == RFp::MisplacedWrongLen {
        // FINGERPRINT followed by one more attribute; CRC over everything before it with the *final* length
        let final_len = bytes.len() - 20 + 8 + 8;
        let mut pre = bytes.clone();
        pre[2..4].copy_from_slice(&(final_len as u16).to_be_bytes());
        let crc = crypto::crc32(&pre) ^ 0x5354_554e;
        codec::push_tlv(&mut bytes, codec::T_FP, &crc.to_be_bytes());
        codec::push_tlv(&mut bytes, codec::T_PRIORITY, &[0, 0, 0, 9]);
        let l = (bytes.len() - 20) as u16;
        bytes[2..4].copy_from_slice(&l.to_be_bytes());
    }
    if r.fp == RFp::BadThenDecoy {
        // [.. wrong FINGERPRINT][0xC0DE len 8: 80 28 00 04 crc], crc over all bytes before the decoy TLV value's FP image
        let final_len = bytes.len() - 20 + 12;
        bytes[2..4].copy_from_slice(&(final_len as u16).to_be_bytes());
        bytes.extend_from_slice(&[0xC0, 0xDE, 0x00, 0x08]);
        let crc = crypto::crc32(&bytes) ^ 0x5354_554e;
        bytes.extend_from_slice(&[0x80, 0x28, 0x00, 0x04]);
        bytes.extend_from_slice(&crc.to_be_bytes());
    }
    if r.fp == RFp::BadWithResidueTrailer {
        let n = bytes.len();
        bytes[n - 4..].copy_from_slice(&(0x2144_DF1Cu32 ^ 0x5354_554e).to_be_bytes());
        let c = crypto::crc32(&bytes);
        bytes.extend_from_slice(&c.to_le_bytes());
        bytes.extend_from_slice(&[0x80, 0x28, 0x00, 0x04, 0, 0, 0, 0]);
    }
    if r.fp == RFp::BadWithLookalikeTrailer {
        let n = bytes.len();
        let right = crypto::crc32(&bytes[..n - 8]) ^ 0x5354_554e;
        bytes.extend_from_slice(&[0x80, 0x28, 0x00, 0x04]);
        bytes.extend_from_slice(&right.to_be_bytes());
    }
    if r.fp == RFp::BadThenSecondFp {
        let final_len = bytes.len() - 20 + 8;
        bytes[2..4].copy_from_slice(&(final_len as u16).to_be_bytes());
        let crc = crypto::crc32(&bytes) ^ 0x5354_554e;
        codec::push_tlv(&mut bytes, codec::T_FP, &crc.to_be_bytes());
    }
    bytes
}

// ---------------------------------------------------------------------------------------------
// RFC 8489 §9.2.4 acceptance (Appendix B of DESIGN.md)

#[derive(Clone, Debug, PartialEq, Eq, Hash)]
pub struct Challenge {
    pub realm: String,
    pub nonce: String,
    pub offered: Option<Vec<(u16, Vec<u8>)>>,
    pub pa_bit: bool,
    pub anon_bit: bool,
}

pub fn challenge_of(c: &Chal) -> Option<Challenge> {
    if !c.realm {
        return None;
    }
    let nonce = nonce_string(c.nonce)?;
    let (pa_bit, anon_bit) = match c.nonce {
        NonceKind::Cookie(p, a, _) | NonceKind::CookieX(p, a, _) => (p, a),
        _ => (false, false),
    };
    Some(Challenge { realm: realm_name(c.realm_v).into(), nonce, offered: pas_list(c.pas), pa_bit, anon_bit })
}

#[derive(Clone, Debug, PartialEq, Eq)]
pub enum Verdict {
    Accept,
    /// (status code, finding sub-key)
    Reject(u16, &'static str),
}

fn pa_value(list: &[(u16, Vec<u8>)]) -> Vec<u8> {
    codec::value_bytes(&L::PasswordAlgorithms(list.to_vec()), &[0; 12])
}

pub fn accept(req: &[u8], ch: &Challenge) -> Verdict {
    accept_for(req, ch, &super::world::creds(0))
}

pub fn accept_for(req: &[u8], ch: &Challenge, cr: &super::world::Creds) -> Verdict {
    let p = match ref_parse(req) {
        Ok(p) => p,
        Err(_) => return Verdict::Reject(400, "unparseable-request"),
    };
    let find = |ty: u16| p.tlvs.iter().find(|t| t.ty == ty);
    let mi = find(codec::T_MI);
    let sha = find(codec::T_SHA);
    if mi.is_none() && sha.is_none() {
        return Verdict::Reject(401, "no-integrity-attribute");
    }
    let (user, hash, realm, nonce) = (find(codec::T_USERNAME), find(codec::T_USERHASH), find(codec::T_REALM), find(codec::T_NONCE));
    if user.is_none() && hash.is_none() {
        return Verdict::Reject(400, "missing-username-or-userhash");
    }
    let Some(realm) = realm else { return Verdict::Reject(400, "missing-realm") };
    let Some(nonce) = nonce else { return Verdict::Reject(400, "missing-nonce") };
    let (pas, pa) = (find(codec::T_PASSWORD_ALGORITHMS), find(codec::T_PASSWORD_ALGORITHM));
    let mut alg: u16 = 1;
    if ch.pa_bit {
        if pas.is_none() && pa.is_none() {
            alg = 1;
        } else {
            let (Some(pas), Some(pa)) = (pas, pa) else { return Verdict::Reject(400, "password-algorithm-mismatch") };
            let offered = ch.offered.clone().unwrap_or_default();
            if pas.value != pa_value(&offered) {
                return Verdict::Reject(400, "password-algorithms-not-echoed");
            }
            if pa.value.len() < 4 {
                return Verdict::Reject(400, "password-algorithm-mismatch");
            }
            let a = u16::from_be_bytes([pa.value[0], pa.value[1]]);
            if !offered.iter().any(|(x, _)| *x == a) || !(a == 1 || a == 2) {
                return Verdict::Reject(400, "password-algorithm-not-offered");
            }
            alg = a;
        }
    }
    if nonce.value != ch.nonce.as_bytes() {
        return Verdict::Reject(438, "stale-nonce-echoed");
    }
    if ch.anon_bit {
        match hash {
            Some(h) if h.value == crypto::sha256(format!("{}:{}", cr.user, ch.realm).as_bytes()) => {}
            _ => return Verdict::Reject(401, "userhash"),
        }
    } else {
        match user {
            Some(u) if u.value == cr.user.as_bytes() => {}
            _ => return Verdict::Reject(401, "username"),
        }
    }
    if realm.value != ch.realm.as_bytes() {
        return Verdict::Reject(401, "realm");
    }
    let key = lt_key_for(cr.user, alg, &ch.realm, cr.pass_key);
    // RFC 8489 9.2.4: MESSAGE-INTEGRITY-SHA256 is checked when present, otherwise MESSAGE-INTEGRITY
    match (sha, mi) {
        (Some(t), _) => {
            if codec::sha_ok(req, t, &key) {
                Verdict::Accept
            } else {
                Verdict::Reject(401, "mac")
            }
        }
        (None, Some(t)) => {
            if codec::mi_ok(req, t, &key) {
                Verdict::Accept
            } else {
                Verdict::Reject(401, "mac")
            }
        }
        (None, None) => Verdict::Reject(401, "no-integrity-attribute"),
    }
}
