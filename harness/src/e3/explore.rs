//! E3 explorers: (a) breadth-first search over event histories with state deduplication on the canonical
//! snapshot + monitor key; (b) deviation-bounded run-to-completion.
//! A state is the event history reaching it; it is rebuilt by replay on a fresh real client.

use super::server::{build_reply, Reply, UNKNOWN_ID};
use super::world::{hash128, Cfg, Obs, World, MS};
use crate::refs::codec::L;
use crate::util::Report;
use rayon::prelude::*;
use serde_json::{json, Value};
use std::collections::HashSet;
use std::sync::Arc;

#[derive(Clone, Debug, PartialEq, Eq, Hash, serde::Serialize, serde::Deserialize)]
pub enum Target {
    Req(usize),
    Unknown,
    /// an id that no request carries but that is a look-alike (see `near_id`) of the id of request i; for the client it is
    /// simply an unknown id
    Near(usize, u8),
}

pub const NEAR_KINDS: u8 = 12;

/// Look-alikes of a transaction id: ids that differ from it but coincide with it under some cheaper notion of equality
/// (a fold of the 96 bits into a narrower word, a prefix or suffix, a byte-order-insensitive digest).
pub fn near_id(id: [u8; 12], k: u8) -> [u8; 12] {
    let mut x = id;
    match k % NEAR_KINDS {
        0 => { x[7] ^= 0x01; x[11] ^= 0x01; }                        // be64(id[0..8]) ^ be32(id[8..12])
        1 => { for i in 4..8 { x[i] ^= 0xFF; x[i + 4] ^= 0xFF; } }   // the same, every bit of the low word
        2 => { x[0] ^= 0x80; x[4] ^= 0x80; }                         // xor of three 32-bit words / be64 ^ (be32 << 32)
        3 => { x[0] ^= 0x01; x[8] ^= 0x01; }                         // xor of three 32-bit words
        4 => { x.rotate_left(4); if x == id { x[0] ^= 1; x[4] ^= 1; } }  // word-order-insensitive digests
        5 => { x.reverse(); if x == id { x[0] ^= 1; x[11] ^= 1; } }  // byte-order-insensitive digests
        6 => { x[11] ^= 0x01; }                                      // prefix comparison
        7 => { x[0] ^= 0x01; }                                       // suffix comparison
        8 => { x.swap(5, 6); if x == id { x[5] ^= 1; x[6] ^= 1; } }  // byte sums / xors
        9 => { x[10] = x[10].wrapping_add(1); x[11] = x[11].wrapping_sub(1); } // additive byte fold
        10 => { x[3] ^= 0x10; x[11] ^= 0x10; }                       // be32 ^ be64 (low word aligned the other way)
        _ => { x[5] ^= 0x40; x[6] ^= 0x20; }                         // an ordinary two-byte corruption
    }
    x
}

#[derive(Clone, Debug, PartialEq, Eq, Hash, serde::Serialize, serde::Deserialize)]
pub enum Raw {
    Garbage,
    TruncatedHeader,
    /// a request-class message carrying the id of the target
    RequestClass,
}

#[derive(Clone, Debug, PartialEq, Eq, Hash, serde::Serialize, serde::Deserialize)]
pub enum Event {
    Send { app: usize },
    /// send_request with a caller buffer of `cap` bytes (too small: the call must fail and change nothing)
    SendTiny { app: usize, cap: usize },
    SendM { app: usize, method: u16, indication: bool },
    Indicate { app: usize },
    Timer,
    /// advance the clock to the instant, then call on_timeout
    TimerAt(u64),
    AdvanceTo(u64),
    Deliver { to: Target, reply: Reply },
    /// deliver the bytes of the k-th buffer already delivered (an exact duplicate)
    Redeliver(usize),
    RawBytes(Vec<u8>),
}

impl Event {
    pub fn show(&self) -> String {
        match self {
            Event::AdvanceTo(t) => format!("AdvanceTo({} ms)", *t as f64 / 1e6),
            Event::TimerAt(t) => format!("TimerAt({} ms)", *t as f64 / 1e6),
            Event::Deliver { to, reply } => format!("Deliver({:?}, {})", to, reply.show()),
            Event::RawBytes(b) => format!("RawBytes({} bytes)", b.len()),
            o => format!("{:?}", o),
        }
    }
}

/// Replay artefact of a client history: human-readable rendering plus the machine-readable configuration,
/// application attribute lists and event list that `./check <id> replay <file>` re-executes without the explorer.
pub fn history_replay(w: &World, hist: &[Event], obs: &Obs) -> Value {
    json!({
        "kind": "history",
        "config": w.cfg.show(),
        "events": show_history(hist),
        "observed": super::world::show_events(&obs.events),
        "result": format!("{:?}", obs.res).chars().take(200).collect::<String>(),
        "cfg_json": serde_json::to_value(&w.cfg).unwrap_or(Value::Null),
        "apps_json": serde_json::to_value(&*w.app_lists).unwrap_or(Value::Null),
        "events_json": serde_json::to_value(hist).unwrap_or(Value::Null),
    })
}

pub fn show_history(h: &[Event]) -> Value {
    json!(h.iter().map(|e| e.show()).collect::<Vec<_>>())
}

/// Everything a monitor may look at for one executed transition.
pub struct Step<'a> {
    pub ev: &'a Event,
    pub obs: &'a Obs,
    /// canonical client state before / after the call
    pub before: &'a str,
    pub after: &'a str,
    /// bytes handed to on_buffer_recv, if any
    pub delivered: Option<&'a [u8]>,
}

pub trait Monitor: Send + Sync {
    fn fresh(&self) -> Box<dyn Monitor>;
    /// `rep` is None while a prefix is being replayed (verdicts were already taken when it was first explored)
    fn on_step(&mut self, w: &World, step: &Step, rep: Option<(&mut Report, &[Event])>);
    /// monitor state that influences future verdicts, in canonical (renamed, time-relative) form
    fn key(&self, w: &World) -> String;
    fn enabled(&self, w: &World) -> Vec<Event>;
    /// snapshots are expensive; monitors that do not compare them can switch them off
    fn needs_snapshots(&self) -> bool {
        true
    }
    /// end of a run-to-completion execution (`stranded`: a request is still awaiting although nothing is armed,
    /// pending or planned)
    fn on_end(&mut self, _w: &World, _stranded: bool, _rep: Option<(&mut Report, &[Event])>) {}
}

pub struct Run {
    pub w: World,
    pub mon: Box<dyn Monitor>,
    pub delivered: Vec<Vec<u8>>,
    pub canon: String,
}

pub fn start(cfg: &Cfg, apps: &Arc<Vec<Vec<L>>>, proto: &dyn Monitor) -> Run {
    let w = World::new(cfg, apps.clone());
    let canon = w.canon();
    Run { w, mon: proto.fresh(), delivered: vec![], canon }
}

pub fn bytes_for(w: &World, ev: &Event, delivered: &[Vec<u8>]) -> Option<Vec<u8>> {
    match ev {
        Event::Deliver { to, reply } => {
            let mut b = match to {
                Target::Req(i) => match w.reqs.get(*i) {
                    Some(r) => build_reply(w, r.id, Some(&r.first), reply),
                    None => build_reply(w, UNKNOWN_ID, None, reply),
                },
                Target::Unknown => build_reply(w, UNKNOWN_ID, None, reply),
                Target::Near(i, k) => match w.reqs.get(*i) {
                    Some(r) => build_reply(w, near_id(r.id, *k), Some(&r.first), reply),
                    None => build_reply(w, UNKNOWN_ID, None, reply),
                },
            };
            if reply.fp == super::server::RFp::ValueOfPrevious {
                // the last four bytes (the FINGERPRINT value) are those of the previously delivered buffer, when that one
                // ended in a FINGERPRINT attribute too; otherwise the value is simply off by one
                let n = b.len();
                match delivered.last() {
                    Some(p) if p.len() >= 8 && p[p.len() - 8..p.len() - 4] == [0x80, 0x28, 0x00, 0x04] && p[p.len() - 4..] != b[n - 4..] => {
                        let v = p[p.len() - 4..].to_vec();
                        b[n - 4..].copy_from_slice(&v);
                    }
                    _ => b[n - 1] ^= 0x01,
                }
            }
            Some(b)
        }
        Event::Redeliver(k) => if *k == usize::MAX { delivered.last().cloned() } else { delivered.get(*k).cloned() },
        Event::RawBytes(b) => Some(b.clone()),
        _ => None,
    }
}

/// Execute one event on the real client and feed the monitor.
pub fn step(run: &mut Run, ev: &Event, rep: Option<(&mut Report, &[Event])>) -> Obs {
    let snaps = run.mon.needs_snapshots();
    let before = std::mem::take(&mut run.canon);
    let bytes = bytes_for(&run.w, ev, &run.delivered);
    let obs = match ev {
        Event::Send { app } => run.w.send(*app),
        Event::SendTiny { app, cap } => run.w.send_tiny(*app, *cap),
        Event::SendM { app, method, indication } => run.w.send_method(*app, *method, *indication),
        Event::Indicate { app } => run.w.indicate(*app),
        Event::Timer => run.w.timer(),
        Event::TimerAt(t) => {
            run.w.advance_to(*t);
            run.w.timer()
        }
        Event::AdvanceTo(t) => run.w.advance_to(*t),
        Event::Deliver { .. } | Event::Redeliver(_) | Event::RawBytes(_) => {
            let b = bytes.clone().unwrap_or_default();
            let o = run.w.recv(&b);
            run.delivered.push(b);
            o
        }
    };
    let after = if snaps && run.w.dead.is_none() { run.w.canon() } else { String::new() };
    {
        let st = Step { ev, obs: &obs, before: &before, after: &after, delivered: bytes.as_deref() };
        run.mon.on_step(&run.w, &st, rep);
    }
    run.canon = after;
    obs
}

pub fn replay(cfg: &Cfg, apps: &Arc<Vec<Vec<L>>>, proto: &dyn Monitor, hist: &[Event]) -> Run {
    let mut run = start(cfg, apps, proto);
    for e in hist {
        step(&mut run, e, None);
    }
    run
}

pub struct BfsStats {
    pub states: u64,
    pub transitions: u64,
    pub depth_completed: usize,
    pub capped: bool,
}

/// Breadth-first exploration up to `depth`. Returns statistics; violations go to `rep`.
pub fn bfs(cfg: &Cfg, apps: &Arc<Vec<Vec<L>>>, proto: &dyn Monitor, depth: usize, max_states: usize, rep: &mut Report) -> BfsStats {
    bfs_with(cfg, apps, proto, depth, max_states, rep, None)
}

pub type Visit<'a> = &'a (dyn Fn(&[Event], &mut Report) + Sync);

/// Like `bfs`; `visit` is called once for every distinct state (with a history reaching it) when it is expanded.
pub fn bfs_with(cfg: &Cfg, apps: &Arc<Vec<Vec<L>>>, proto: &dyn Monitor, depth: usize, max_states: usize, rep: &mut Report, visit: Option<Visit>) -> BfsStats {
    // second pass (logging off): two levels shallower, never below 4
    let (depth, max_states) = if crate::util::second_pass() { (depth.saturating_sub(2).max(4).min(depth), max_states / 2) } else { (depth, max_states) };
    let mut seen: HashSet<u128> = HashSet::new();
    let mut frontier: Vec<Vec<Event>> = vec![vec![]];
    {
        let r0 = start(cfg, apps, proto);
        seen.insert(hash128(&format!("{}#{}", r0.w.canon(), r0.mon.key(&r0.w))));
    }
    let mut stats = BfsStats { states: 1, transitions: 0, depth_completed: 0, capped: false };
    for d in 0..depth {
        let results: Vec<(Vec<(Vec<Event>, u128)>, Report, u64)> = frontier
            .par_iter()
            .map(|hist| {
                let mut local = Report::new();
                let base = replay(cfg, apps, proto, hist);
                let mut out = vec![];
                let mut n = 0u64;
                if base.w.dead.is_some() {
                    return (out, local, n);
                }
                if let Some(v) = visit {
                    v(hist, &mut local);
                }
                let evs = base.mon.enabled(&base.w);
                drop(base);
                for e in evs {
                    let mut run = replay(cfg, apps, proto, hist);
                    let mut h2 = hist.clone();
                    h2.push(e.clone());
                    let before_viol = local.violations.len();
                    let obs = step(&mut run, &e, Some((&mut local, &h2)));
                    n += 1;
                    local.sym(match &e {
                        Event::Send { .. } | Event::SendM { .. } => "Send",
                        Event::SendTiny { .. } => "SendTiny",
                        Event::Indicate { .. } => "Indicate",
                        Event::Timer | Event::TimerAt(_) => "Timer",
                        Event::AdvanceTo(_) => "Advance",
                        Event::Deliver { .. } => "Deliver",
                        Event::Redeliver(_) => "Redeliver",
                        Event::RawBytes(_) => "RawBytes",
                    });
                    local.outcome(outcome_of(&obs));
                    if run.w.dead.is_some() || local.violations.len() > before_viol {
                        continue; // do not extend a state reached through a violating transition
                    }
                    let key = hash128(&format!("{}#{}", run.w.canon(), run.mon.key(&run.w)));
                    out.push((h2, key));
                }
                (out, local, n)
            })
            .collect();
        let mut next = vec![];
        for (children, local, n) in results {
            stats.transitions += n;
            rep.merge(local);
            for (h, k) in children {
                if seen.insert(k) {
                    if seen.len() <= max_states {
                        next.push(h);
                    } else {
                        stats.capped = true;
                    }
                }
            }
        }
        stats.states = seen.len() as u64;
        stats.depth_completed = d + 1;
        if next.is_empty() {
            break;
        }
        if stats.capped {
            rep.capped = Some(format!("state cap {} reached at depth {}", max_states, d + 1));
        }
        if crate::util::rss_gib() > crate::util::rss_cap_gib() {
            stats.capped = true;
            rep.capped = Some(format!("memory cap: resident set above {} GiB after depth {}; deeper levels not explored", crate::util::rss_cap_gib(), d + 1));
            break;
        }
        frontier = next;
    }
    // a few sample histories: the last frontier's first and last
    if let Some(h) = frontier.first() {
        rep.sample(json!({"config": cfg.show(), "history": show_history(h)}));
    }
    if let Some(h) = frontier.last() {
        rep.sample(json!({"config": cfg.show(), "history": show_history(h)}));
    }
    stats
}

fn outcome_of(obs: &Obs) -> String {
    use super::world::{CallRes, OEv};
    let r = match &obs.res {
        CallRes::SendOk(_) => "SendOk".to_string(),
        CallRes::SendErr(e) => format!("SendErr({:?})", e).chars().take(40).collect(),
        CallRes::IndOk(_) => "IndOk".into(),
        CallRes::IndErr(e) => format!("IndErr({:?})", e).chars().take(40).collect(),
        CallRes::TimerDone => "Timer".into(),
        CallRes::RecvOk => "RecvOk".into(),
        CallRes::RecvErr(e) => format!("RecvErr({:?})", e).chars().take(40).collect(),
        CallRes::Advanced => "Advanced".into(),
        CallRes::Panic(_) => "PANIC".into(),
    };
    let evs: Vec<&str> = obs
        .events
        .iter()
        .map(|e| match e {
            OEv::Out { .. } => "Out",
            OEv::Rto { .. } => "Rto",
            OEv::Retry(_) => "Retry",
            OEv::Failed(_, why) => match why {
                super::world::Reason::TimedOut => "Failed(TimedOut)",
                super::world::Reason::ProtectionViolated => "Failed(ProtectionViolated)",
                super::world::Reason::DoNotRetry => "Failed(DoNotRetry)",
                _ => "Failed(other)",
            },
            OEv::Recv { class, .. } => match class {
                1 => "Recv(indication)",
                2 => "Recv(success)",
                3 => "Recv(error)",
                _ => "Recv(request)",
            },
        })
        .collect();
    format!("{}:{}", r, evs.join("+"))
}

/// Interesting instants strictly after now, per request: schedule points and final deadline.
pub fn interesting_points(w: &World) -> Vec<u64> {
    let mut p: Vec<u64> = vec![];
    for r in w.reqs.iter().filter(|r| r.awaiting()) {
        let (s, d) = r.schedule();
        p.extend(s);
        p.push(d);
    }
    // heap expiries as the client sees them (a bug may put them elsewhere)
    let snap = w.snapshot();
    for (i, d, _) in &snap.timeouts {
        let t = *i + *d;
        if t >= w.base {
            p.push((t - w.base).as_nanos() as u64);
        }
    }
    p.retain(|t| *t > w.now);
    p.sort();
    p.dedup();
    p
}

#[derive(Clone, Copy, PartialEq, Eq)]
pub enum TimeDetail {
    /// next point exactly, next point + 1 ms, beyond everything
    Coarse,
    /// each of the next two points: -1 ms, exact, +1 ms; midpoint; beyond
    Medium,
    /// every point: -1 ms, exact, +1 ms; every midpoint; beyond
    Fine,
}

pub fn time_reps(w: &World, detail: TimeDetail) -> Vec<u64> {
    let pts = interesting_points(w);
    let mut v: Vec<u64> = vec![];
    let take = match detail {
        TimeDetail::Coarse => 1,
        TimeDetail::Medium => 2,
        TimeDetail::Fine => usize::MAX,
    };
    for (k, p) in pts.iter().enumerate().take(take) {
        v.push(*p);
        v.push(*p + MS);
        if detail != TimeDetail::Coarse {
            if *p > w.now + MS {
                v.push(*p - MS);
            }
            if let Some(q) = pts.get(k + 1) {
                if *q > *p + 2 * MS {
                    v.push(*p + (*q - *p) / 2);
                }
            }
        }
    }
    if let Some(last) = pts.last() {
        v.push(*last + 10_000 * MS);
    } else {
        v.push(w.now + MS);
    }
    v.retain(|t| *t > w.now);
    v.sort();
    v.dedup();
    v
}


/// Messages that are NOT responses but carry the transaction id of an outstanding request (a reflected request, an
/// indication that happens to reuse the id), authenticated the way the configured mechanism expects: whatever the client
/// does with them, the request itself must be unaffected.
pub fn id_tie_events(w: &World) -> Vec<Event> {
    use super::server::{RClass, RFp, RMac, Reply};
    use super::world::Mech;
    let mac = match w.cfg.mech {
        Mech::None => RMac::None,
        Mech::ShortTerm(Some(true)) => RMac::Sha,
        _ => RMac::Mi,
    };
    let fp = if w.cfg.fingerprint { RFp::Valid } else { RFp::Absent };
    let mut v = vec![];
    for i in w.awaiting().into_iter().take(2) {
        for class in [RClass::Indication, RClass::Request] {
            v.push(Event::Deliver { to: Target::Req(i), reply: Reply::plain(class).with_mac(mac).with_fp(fp) });
        }
    }
    v
}
