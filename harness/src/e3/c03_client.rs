//! Client part of C03: mutated server replies, addressed to an outstanding transaction, delivered to clients in
//! every credential state representative; the client must return a value or an error and remain usable.

use super::c13;
use super::explore::{self, Event, Monitor, Step};
use super::server::{build_reply, Chal, NonceKind, PasKind, RClass, RFp, RMac, Reply};
use super::world::{CallRes, Cfg, Mech, World};
use crate::faults::{self, Families};
use crate::refs::codec::L;
use crate::refs::crypto::hex;
use crate::util::{Report, RunCtx, Shared};
use rayon::prelude::*;
use serde_json::json;
use std::sync::Arc;

struct Nop;
impl Monitor for Nop {
    fn fresh(&self) -> Box<dyn Monitor> {
        Box::new(Nop)
    }
    fn on_step(&mut self, _w: &World, _st: &Step, _rep: Option<(&mut Report, &[Event])>) {}
    fn key(&self, _w: &World) -> String {
        String::new()
    }
    fn enabled(&self, _w: &World) -> Vec<Event> {
        vec![]
    }
    fn needs_snapshots(&self) -> bool {
        false
    }
}

fn seed_replies(cfg: &Cfg) -> Vec<Reply> {
    let fp = if cfg.fingerprint { RFp::Valid } else { RFp::Absent };
    let ok = Reply::plain(RClass::Success).with_fp(fp);
    let c = |realm, nonce, pas| Chal { realm, nonce, pas, realm_v: 0, order: 0 };
    match cfg.mech {
        Mech::None => vec![ok, Reply::plain(RClass::Error(400)).with_fp(fp), Reply::plain(RClass::Indication).with_fp(fp), ok.with_mac(RMac::Mi)],
        Mech::ShortTerm(_) => vec![
            ok.with_mac(RMac::Mi),
            ok.with_mac(RMac::Sha),
            ok.with_mac(RMac::Both),
            Reply::plain(RClass::Error(420)).with_mac(RMac::Mi).with_fp(fp),
            Reply::plain(RClass::Indication).with_mac(RMac::Sha).with_fp(fp),
        ],
        Mech::LongTerm => vec![
            Reply::plain(RClass::Error(401)).with_chal(c(true, NonceKind::Plain(1), PasKind::Absent)).with_fp(fp),
            Reply::plain(RClass::Error(401)).with_chal(c(true, NonceKind::Cookie(true, true, 2), PasKind::Md5Sha256)).with_fp(fp),
            Reply::plain(RClass::Error(401)).with_chal(c(true, NonceKind::Cookie(true, false, 3), PasKind::Unsupported)).with_fp(fp),
            Reply::plain(RClass::Error(401)).with_chal(c(true, NonceKind::Cookie(false, false, 4), PasKind::Absent)).with_mac(RMac::Mi).with_fp(fp),
            Reply::plain(RClass::Error(438)).with_chal(c(false, NonceKind::Cookie(true, true, 5), PasKind::Md5Sha256)).with_fp(fp),
            Reply::plain(RClass::Error(438)).with_chal(c(false, NonceKind::Plain(6), PasKind::Absent)).with_mac(RMac::Mi).with_fp(fp),
            ok.with_mac(RMac::Mi),
            ok.with_mac(RMac::Sha),
            Reply::plain(RClass::Error(500)).with_mac(RMac::Mi).with_fp(fp),
        ],
    }
}

fn fresh_world(cfg: &Cfg, apps: &Arc<Vec<Vec<L>>>, prefix: &[Event], outstanding: usize) -> explore::Run {
    let mut run = explore::replay(cfg, apps, &Nop, prefix);
    for _ in 0..outstanding.min(2) {
        explore::step(&mut run, &Event::Send { app: 0 }, None);
    }
    // `outstanding` >= 3 means: two requests, both already retransmitted once (unreliable transport)
    if outstanding >= RETRANSMITTED && !cfg.reliable() {
        if let Some(t) = run.w.awaiting().iter().map(|i| run.w.reqs[*i].pending_deadline()).min() {
            explore::step(&mut run, &Event::TimerAt(t), None);
        }
    }
    run
}

/// pseudo-count: two outstanding requests that have been retransmitted once before the bytes arrive
const RETRANSMITTED: usize = 3;

fn mutants_for(run: &explore::Run, reply: &Reply) -> Vec<(Vec<u8>, &'static str)> {
    let Some(i) = run.w.awaiting().last().copied() else { return vec![] };
    let r = &run.w.reqs[i];
    let seed = build_reply(&run.w, r.id, Some(&r.first), reply);
    let mut out = vec![(seed.clone(), "none")];
    faults::single_faults(&seed, Families::all(), &mut |m, class| out.push((m.to_vec(), class)));
    out
}

pub fn run(ctx: &RunCtx, rep: &mut Report) {
    let thorough = ctx.thorough();
    let apps: Arc<Vec<Vec<L>>> = Arc::new(vec![vec![]]);
    let mut states: Vec<(&'static str, Cfg, Vec<Event>)> = vec![];
    for fp in [false, true] {
        for rel in [false, true] {
            if !thorough && fp != rel {
                continue; // quick tier: fingerprint off / unreliable and fingerprint on / reliable
            }
            for (name, cfg, prefix) in c13::representatives(fp, rel) {
                states.push((name, cfg, prefix));
            }
        }
    }
    let work: Vec<(usize, usize)> = (0..states.len()).flat_map(|s| [1usize, 2, RETRANSMITTED].into_iter().map(move |o| (s, o))).collect();
    let shared = Shared::new();
    let shared2 = Shared::new();
    work.par_iter().for_each(|(si, outstanding)| {
        let (name, cfg0, prefix) = &states[*si];
        // room for exactly two more requests than the prefix and the outstanding ones need
        let mut cfg = cfg0.clone();
        cfg.max_tx = (*outstanding).min(2) + 1;
        let cfg = &cfg;
        let mut r = Report::new();
        for reply in seed_replies(cfg) {
            let mut run = fresh_world(cfg, &apps, prefix, *outstanding);
            if run.w.awaiting().is_empty() {
                continue;
            }
            let mut muts = mutants_for(&run, &reply);
            let mut k = 0;
            while k < muts.len() {
                let (bytes, class) = muts[k].clone();
                k += 1;
                r.eval();
                r.transitions += 1;
                let obs = run.w.recv(&bytes);
                let replay = || json!({"kind": "client-bytes", "state": name, "config": cfg.show(), "outstanding": outstanding, "seed_reply": reply.show(), "fault": class, "bytes": hex(&bytes)});
                match &obs.res {
                    CallRes::Panic(p) => {
                        r.violate(format!("client-panics/{}/{}", crate::util::panic_site(p), class), format!("{} in state {}", p, name), replay());
                        run = fresh_world(cfg, &apps, prefix, *outstanding);
                        muts = mutants_for(&run, &reply);
                        continue;
                    }
                    CallRes::RecvOk => {
                        r.add_extra("client_mutants_accepted", 1);
                        // usable afterwards? (the client's table has room for two more requests than were outstanding:
                        // a request must be accepted now, and again, whatever the accepted bytes were)
                        let t = run.w.timer();
                        // as many further requests as the limit leaves room for must be served
                        let room = cfg.max_tx.saturating_sub(run.w.awaiting().len()).min(2);
                        let s = if room >= 1 { run.w.send(0) } else { t.clone() };
                        let s2 = if room >= 2 { run.w.send(0) } else { t.clone() };
                        if matches!(t.res, CallRes::Panic(_)) || matches!(s.res, CallRes::Panic(_)) {
                            r.violate(format!("client-unusable-after-accepted-mutant/{}", class), format!("{:?} {:?}", t.res, s.res), replay());
                        } else if run.w.dead.is_none() && (matches!(s.res, CallRes::SendErr(super::world::ErrK::MaxOutstanding)) || matches!(s2.res, CallRes::SendErr(super::world::ErrK::MaxOutstanding))) {
                            r.violate(
                                format!("client-refuses-requests-after-accepted-bytes/{}", if *outstanding >= RETRANSMITTED { "requests-had-been-retransmitted" } else { "fresh-requests" }),
                                format!("{:?} {:?} with {} requests awaiting and a limit of {}", s.res, s2.res, run.w.awaiting().len(), cfg.max_tx),
                                replay(),
                            );
                        }
                        // restore the credential state for the remaining mutants
                        run = fresh_world(cfg, &apps, prefix, *outstanding);
                        muts = mutants_for(&run, &reply);
                    }
                    CallRes::RecvErr(_) => {
                        r.add_extra("client_mutants_rejected", 1);
                        if run.w.awaiting().is_empty() {
                            run = fresh_world(cfg, &apps, prefix, *outstanding);
                            muts = mutants_for(&run, &reply);
                        }
                    }
                    _ => {}
                }
                r.sym("client-deliveries");
            }
            // usability probe at the end of the seed
            let t = run.w.timer();
            let s = run.w.send(0);
            if let (CallRes::Panic(p), _) | (_, CallRes::Panic(p)) = (&t.res, &s.res) {
                r.violate("client-unusable-after-mutants", p.clone(), json!({"state": name, "config": cfg.show()}));
            }
        }
        r.sym(name);
        if *si == 7 && *outstanding == 1 {
            r.sample(json!({"client_state": name, "config": cfg.show(), "outstanding": outstanding, "seed_replies": seed_replies(cfg).iter().map(|x| x.show()).collect::<Vec<_>>()}));
        }
        shared.merge(r);
    });
    // long replies: a success response for the outstanding id with a filler of every size of menu::offset_points in
    // front of a valid FINGERPRINT / integrity tail (keyed as the server would), and the same with the last byte flipped
    states.par_iter().for_each(|(name, cfg, prefix)| {
        let mut r = Report::new();
        let mut run = fresh_world(cfg, &apps, prefix, 1);
        for (ix, f) in crate::menu::offset_points(thorough).into_iter().enumerate() {
            for tail in [vec![L::Fp], vec![L::Mi, L::Fp], vec![L::Sha]] {
                if run.w.dead.is_some() || run.w.awaiting().is_empty() {
                    run = fresh_world(cfg, &apps, prefix, 1);
                }
                let Some(i) = run.w.awaiting().last().copied() else { break };
                let (id, first) = (run.w.reqs[i].id, run.w.reqs[i].first.clone());
                let key = super::server::reply_key(&run.w, Some(&first), false);
                let mut attrs = crate::menu::filler(f, ix % 2 == 1);
                attrs.extend(tail.iter().cloned());
                if crate::menu::body_size(&attrs, &id) > 65_532 {
                    continue;
                }
                let good = crate::refs::codec::ref_encode(&crate::menu::lmsg(1, 2, id, attrs), Some(&key));
                let mut bad = good.clone();
                let n = bad.len();
                bad[n - 1] ^= 0x80;
                for (bytes, class) in [(bad, "long-reply-last-byte-flipped"), (good, "long-reply")] {
                    r.eval();
                    r.transitions += 1;
                    let obs = run.w.recv(&bytes);
                    if let CallRes::Panic(p) = &obs.res {
                        r.violate(
                            format!("client-panics/{}/{}", crate::util::panic_site(p), class),
                            format!("{} in state {} (filler of {} body bytes)", p, name, f),
                            json!({"kind": "client-bytes", "state": name, "config": cfg.show(), "outstanding": 1, "seed_reply": format!("filler {} + {:?}", f, tail), "fault": class, "bytes": hex(&bytes)}),
                        );
                        run = fresh_world(cfg, &apps, prefix, 1);
                        break;
                    }
                }
                r.sym("client-long-replies");
            }
        }
        shared2.merge(r);
    });
    let part = shared.into_inner();
    let (acc, rej, n) = (
        part.extra.get("client_mutants_accepted").and_then(|x| x.as_u64()).unwrap_or(0),
        part.extra.get("client_mutants_rejected").and_then(|x| x.as_u64()).unwrap_or(0),
        part.transitions,
    );
    rep.merge(part);
    rep.merge(shared2.into_inner());
    rep.transitions = 0;
    rep.extra.insert(
        "client".into(),
        json!({"credential_state_representatives": states.len(), "outstanding": [1, 2, "2 retransmitted once"], "deliveries": n, "accepted": acc, "rejected": rej,
               "what": "every single-fault mutant of every reply kind of the reference server (addressed to the newest outstanding id, MAC / FINGERPRINT computed for that id) delivered to a client restored to the representative state whenever a mutant was accepted; the client's limit is one above the number of outstanding requests: after acceptance a timer call and as many further requests as the limit leaves room for (by the harness's own count of unfinished requests) must be served (no panic, no refusal), and at the end of every seed on_timeout, send_request and events must still work"}),
    );
}
