//! Client part of C03 (placeholder until the E3 core lands).
use crate::util::{Report, RunCtx};
pub fn run(_ctx: &RunCtx, _rep: &mut Report) {}
