//! E3 world: one real `StunClient` driven by harness-owned time, transaction-id renaming, observation
//! of every call, canonical snapshot of the whole client state (hook H1).

use crate::refs::codec::{self, from_subject, to_subject, L};
use crate::util::guard;
use std::fmt::Write as _;
use std::time::{Duration, Instant};
use stun_agent::verif_hooks::{VerifMechanism, VerifRtt, VerifSnapshot};
use stun_agent::{
    CredentialMechanism, Integrity, RttConfig, StunAgentError, StunAttributes, StunClient, StunClientEvent,
    StunClienteBuilder, StunTransactionError, TransportReliability,
};
use stun_rs::MessageMethod;

pub const USER: &str = "user";
pub const PASS: &str = "password";
pub const OTHER_PASS: &str = "passwore";
pub const MS: u64 = 1_000_000;

/// A credential set: what the client is configured with, and what must appear on the wire / in the key after
/// OpaqueString enforcement (R-strings).
#[derive(Clone, Copy, Debug)]
pub struct Creds {
    pub user: &'static str,
    pub pass: &'static str,
    pub other_pass: &'static str,
    /// password as it enters the key (enforced)
    pub pass_key: &'static str,
    pub other_pass_key: &'static str,
}

/// 0: short ASCII; 1: a 70-byte user name and a 129-byte password (longer than the 64-byte hash block);
/// 2: the RFC 5769 Katakana user name and a password that enforcement changes (U+00A0 -> U+0020)
pub fn creds(c: u8) -> Creds {
    match c {
        0 => Creds { user: USER, pass: PASS, other_pass: OTHER_PASS, pass_key: PASS, other_pass_key: OTHER_PASS },
        1 => Creds {
            user: crate::menu::long_pass(70, false),
            pass: crate::menu::long_pass(129, false),
            other_pass: crate::menu::long_pass(129, true),
            pass_key: crate::menu::long_pass(129, false),
            other_pass_key: crate::menu::long_pass(129, true),
        },
        // 3..5: a client that has a NEIGHBOUR (see `neighbour_of`): the same user name with another password, the first set
        // again, and another user name with the first password
        3 => Creds { user: USER, pass: "another password", other_pass: "another passwore", pass_key: "another password", other_pass_key: "another passwore" },
        4 => creds(0),
        5 => Creds { user: "user2", pass: PASS, other_pass: OTHER_PASS, pass_key: PASS, other_pass_key: OTHER_PASS },
        _ => Creds {
            user: "\u{30de}\u{30c8}\u{30ea}\u{30c3}\u{30af}\u{30b9}",
            // (long enough that its bytes cannot turn up in a random transaction id or MAC by chance: C08 searches every
            // packet for the password)
            pass: "correct\u{a0}horse\u{a0}battery",
            other_pass: "correct\u{a0}horse\u{a0}batterz",
            pass_key: "correct horse battery",
            other_pass_key: "correct horse batterz",
        },
    }
}

/// Credential sets 3..5 stand for a client with a neighbour: ANOTHER client object (credential set given here), driven
/// earlier on the same thread through complete authenticated exchanges and dropped before the client under test is even
/// built. Nothing the neighbour did may influence the client under test (the monitors judge it by its own configuration).
pub fn neighbour_of(c: u8) -> Option<u8> {
    match c {
        3 => Some(0),
        4 => Some(3),
        5 => Some(0),
        _ => None,
    }
}

#[derive(Clone, Copy, Debug, PartialEq, Eq, Hash, serde::Serialize, serde::Deserialize)]
pub enum Transport {
    Reliable { timeout_ms: u64 },
    Unreliable { rto_ms: u64, gran_ms: u64, rm: u32, rc: u32 },
}

#[derive(Clone, Copy, Debug, PartialEq, Eq, Hash, serde::Serialize, serde::Deserialize)]
pub enum Mech {
    None,
    ShortTerm(Option<bool>), // Some(false) = MI, Some(true) = SHA256, None = to be learned
    LongTerm,
}

#[derive(Clone, Debug, PartialEq, Eq, Hash, serde::Serialize, serde::Deserialize)]
pub struct Cfg {
    pub transport: Transport,
    pub mech: Mech,
    pub fingerprint: bool,
    pub max_tx: usize,
    /// credential set (see `creds`)
    #[serde(default)]
    pub cred: u8,
    /// method of every request / indication the harness sends (and of the replies built for them)
    #[serde(default = "binding")]
    pub method: u16,
}

fn binding() -> u16 {
    1
}

thread_local! {
    /// order of the optional `StunClienteBuilder` calls used by `Cfg::build` on this thread (see C13's builder routes)
    pub static BUILD_ORDER: std::cell::Cell<u8> = std::cell::Cell::new(0);
}

/// attribute type used in application lists to mean "remove the attribute of the type given in the value"
pub const REMOVE_MARK: u16 = 0xFFFE;

pub fn remove_op(ty: u16) -> L {
    L::Unknown(REMOVE_MARK, Some(ty.to_be_bytes().to_vec()))
}

/// Time base of a new world. Clients are independent objects: each gets its own, unrelated time line, and on every thread
/// each new client starts EARLIER (by 40 days) than the one before it, wrapping around after 512 clients - nothing a
/// client saw may leak into another one through thread-local or global state (e.g. a shared epoch).
fn next_time_base() -> Instant {
    static T0: std::sync::OnceLock<Instant> = std::sync::OnceLock::new();
    thread_local! { static K: std::cell::Cell<u64> = std::cell::Cell::new(0); }
    let t0 = *T0.get_or_init(Instant::now);
    let k = K.with(|c| {
        let v = c.get();
        c.set(v + 1);
        v
    });
    t0 + Duration::from_secs(3600) + Duration::from_secs((511 - (k % 512)) * 40 * 86_400)
}

/// what the caller's buffer holds before a send: never zeros, so bytes the encoder fails to write show up
pub const DIRTY: u8 = 0xA5;

impl Cfg {
    pub fn creds(&self) -> Creds {
        creds(self.cred)
    }
    pub fn show(&self) -> String {
        format!("{:?}", self)
    }
    pub fn reliable(&self) -> bool {
        matches!(self.transport, Transport::Reliable { .. })
    }
    pub fn build(&self) -> StunClient {
        let rel = match self.transport {
            Transport::Reliable { timeout_ms } => TransportReliability::Reliable(Duration::from_millis(timeout_ms)),
            Transport::Unreliable { rto_ms, gran_ms, rm, rc } => TransportReliability::Unreliable(RttConfig {
                rto: Duration::from_millis(rto_ms),
                granularity: Duration::from_millis(gran_ms),
                rm,
                rc,
            }),
        };
        // the three optional builder calls in the order selected by BUILD_ORDER (0 = max_transactions, mechanism, fingerprint)
        let order: [u8; 3] = match BUILD_ORDER.with(|c| c.get()) % 6 {
            0 => [0, 1, 2],
            1 => [0, 2, 1],
            2 => [1, 0, 2],
            3 => [1, 2, 0],
            4 => [2, 0, 1],
            _ => [2, 1, 0],
        };
        let mut b = StunClienteBuilder::new(rel);
        for step in order {
            b = match step {
                0 => b.with_max_transactions(self.max_tx),
                1 => match self.mech {
                    Mech::None => b,
                    Mech::ShortTerm(alg) => b.with_mechanism(
                        self.creds().user,
                        self.creds().pass,
                        CredentialMechanism::ShortTerm(alg.map(|sha| if sha { Integrity::MessageIntegritySha256 } else { Integrity::MessageIntegrity })),
                    ),
                    Mech::LongTerm => b.with_mechanism(self.creds().user, self.creds().pass, CredentialMechanism::LongTerm),
                },
                _ => {
                    if self.fingerprint {
                        b.with_fingerprint()
                    } else {
                        b
                    }
                }
            };
        }
        b.build().expect("client builds")
    }
}

#[derive(Clone, Debug, PartialEq, Eq, Hash)]
pub enum Who {
    Req(usize),
    Ind(usize),
    Other([u8; 12]),
}

#[derive(Clone, Copy, Debug, PartialEq, Eq, Hash)]
pub enum Reason {
    DoNotRetry,
    InvalidFingerprint,
    NotFound,
    ProtectionViolated,
    TimedOut,
}

#[derive(Clone, Debug, PartialEq, Eq, Hash)]
pub enum OEv {
    Out { who: Who, bytes: Vec<u8> },
    Rto { who: Who, ns: u64 },
    Retry(Who),
    Failed(Who, Reason),
    Recv { who: Who, class: u8, method: u16, attrs: Vec<L> },
}

#[derive(Clone, Debug, PartialEq, Eq, Hash)]
pub enum ErrK {
    Discarded,
    FingerPrintValidationFailed,
    Ignored,
    MaxOutstanding,
    StunCheckFailed,
    Internal(String),
}

#[derive(Clone, Debug, PartialEq, Eq, Hash)]
pub enum CallRes {
    SendOk(usize),
    SendErr(ErrK),
    IndOk(usize),
    IndErr(ErrK),
    TimerDone,
    RecvOk,
    RecvErr(ErrK),
    Advanced,
    Panic(String),
}

#[derive(Clone, Debug)]
pub struct Obs {
    pub at: u64,
    pub res: CallRes,
    pub events: Vec<OEv>,
}

#[derive(Clone, Debug, PartialEq, Eq, Hash)]
pub enum FinalKind {
    Delivered(u8), // class 2 or 3
    Failed(Reason),
    Retry,
}

#[derive(Clone, Debug)]
pub struct Req {
    pub id: [u8; 12],
    pub t0: u64,
    pub first: Vec<u8>,
    /// initial interval recorded for this transaction right after its send (H1), ns
    pub rto_ns: u64,
    pub rc: u32,
    pub rm: u32,
    pub tx_times: Vec<u64>,
    pub finals: Vec<(u64, FinalKind)>,
    /// last time this request was handled by the client (its send, or a timer call that retransmitted it)
    pub last_handled: u64,
    pub app: usize,
}

impl Req {
    pub fn awaiting(&self) -> bool {
        self.finals.is_empty()
    }
    /// schedule points S_k (k >= 1) and final deadline D, absolute ns
    pub fn schedule(&self) -> (Vec<u64>, u64) {
        let mut s = vec![];
        let rc = self.rc.max(1);
        for k in 1..rc {
            s.push(self.t0 + ((1u64 << k) - 1) * self.rto_ns);
        }
        let d = self.t0 + ((1u64 << (rc - 1)) - 1 + self.rm as u64) * self.rto_ns;
        (s, d)
    }
    /// least schedule point or final deadline strictly after the last handling
    pub fn pending_deadline(&self) -> u64 {
        let (s, d) = self.schedule();
        s.into_iter().chain(std::iter::once(d)).filter(|p| *p > self.last_handled).min().unwrap_or(d)
    }
}

pub struct World {
    pub cfg: Cfg,
    pub client: StunClient,
    pub base: Instant,
    pub now: u64,
    pub reqs: Vec<Req>,
    pub inds: Vec<[u8; 12]>,
    pub dead: Option<String>,
    pub app_lists: std::sync::Arc<Vec<Vec<L>>>,
    pub last_rto_event: Option<(Who, u64, u64)>, // (who, issued at, duration)
    /// the previous event only moved the clock (two clock moves in a row equal one, so explorers skip the second)
    pub just_advanced: bool,
}

fn errk(e: StunAgentError) -> ErrK {
    match e {
        StunAgentError::Discarded => ErrK::Discarded,
        StunAgentError::FingerPrintValidationFailed => ErrK::FingerPrintValidationFailed,
        StunAgentError::Ignored => ErrK::Ignored,
        StunAgentError::MaxOutstandingRequestsReached => ErrK::MaxOutstanding,
        StunAgentError::StunCheckFailed => ErrK::StunCheckFailed,
        StunAgentError::InternalError(s) => ErrK::Internal(s),
    }
}

fn reason(e: &StunTransactionError) -> Reason {
    match e {
        StunTransactionError::DoNotRetry => Reason::DoNotRetry,
        StunTransactionError::InvalidFingerprint => Reason::InvalidFingerprint,
        StunTransactionError::NotFound => Reason::NotFound,
        StunTransactionError::ProtectionViolated => Reason::ProtectionViolated,
        StunTransactionError::TimedOut => Reason::TimedOut,
    }
}

/// The life of a neighbour client (see `neighbour_of`): with long-term credentials a 401 challenge (realm 0, no algorithms),
/// the retry, an authenticated success; then a second challenge offering SHA-256, the retry, an authenticated success. With
/// short-term credentials one authenticated exchange. Deliveries and non-deliveries are counted (the neighbour is a real
/// client with the right password talking to the reference server: every response must be delivered).
pub static NEIGHBOUR_OK: std::sync::atomic::AtomicU64 = std::sync::atomic::AtomicU64::new(0);
pub static NEIGHBOUR_FAILED: std::sync::atomic::AtomicU64 = std::sync::atomic::AtomicU64::new(0);
fn run_neighbour(cfg: &Cfg) {
    use super::server::{build_reply, Chal, NonceKind, PasKind, RClass, RFp, RMac, Reply};
    let mut w = World::new(cfg, std::sync::Arc::new(vec![vec![]]));
    let fp = if cfg.fingerprint { RFp::Valid } else { RFp::Absent };
    let mut exchange = |w: &mut World, chal: Option<Chal>, mac: RMac| {
        w.send(0);
        if let Some(c) = chal {
            let r = w.reqs.last().expect("neighbour: request sent");
            let b = build_reply(w, r.id, Some(&r.first), &Reply::plain(RClass::Error(401)).with_chal(c).with_fp(fp));
            let o = w.recv(&b);
            if !o.events.iter().any(|e| matches!(e, OEv::Retry(_))) {
                NEIGHBOUR_FAILED.fetch_add(1, std::sync::atomic::Ordering::Relaxed);
            }
            w.send(0);
        }
        let r = w.reqs.last().expect("neighbour: request sent");
        let b = build_reply(w, r.id, Some(&r.first), &Reply::plain(RClass::Success).with_mac(mac).with_fp(fp));
        let o = w.recv(&b);
        if o.events.iter().any(|e| matches!(e, OEv::Recv { .. })) {
            NEIGHBOUR_OK.fetch_add(1, std::sync::atomic::Ordering::Relaxed);
        } else {
            NEIGHBOUR_FAILED.fetch_add(1, std::sync::atomic::Ordering::Relaxed);
        }
    };
    match cfg.mech {
        Mech::LongTerm => {
            exchange(&mut w, Some(Chal { realm: true, nonce: NonceKind::Plain(0), pas: PasKind::Absent, realm_v: 0, order: 0 }), RMac::Mi);
            exchange(&mut w, Some(Chal { realm: true, nonce: NonceKind::Cookie(true, false, 1), pas: PasKind::Sha256, realm_v: 0, order: 0 }), RMac::Sha);
        }
        Mech::ShortTerm(Some(true)) => exchange(&mut w, None, RMac::Sha),
        Mech::ShortTerm(_) => exchange(&mut w, None, RMac::Mi),
        Mech::None => exchange(&mut w, None, RMac::None),
    }
}

impl World {
    pub fn new(cfg: &Cfg, app_lists: std::sync::Arc<Vec<Vec<L>>>) -> World {
        if let Some(n) = neighbour_of(cfg.cred) {
            run_neighbour(&Cfg { cred: n, ..cfg.clone() });
        }
        World {
            cfg: cfg.clone(),
            client: cfg.build(),
            base: next_time_base(),
            now: 0,
            reqs: vec![],
            inds: vec![],
            dead: None,
            app_lists,
            last_rto_event: None,
            just_advanced: false,
        }
    }

    pub fn instant(&self) -> Instant {
        self.base + Duration::from_nanos(self.now)
    }

    pub fn who(&self, id: &[u8; 12]) -> Who {
        if let Some(i) = self.reqs.iter().position(|r| &r.id == id) {
            Who::Req(i)
        } else if let Some(i) = self.inds.iter().position(|r| r == id) {
            Who::Ind(i)
        } else {
            Who::Other(*id)
        }
    }

    fn attrs(&self, app: usize) -> StunAttributes {
        let mut a = StunAttributes::default();
        let key = stun_rs::HMACKey::new_short_term("application-key").unwrap();
        for l in &self.app_lists[app % self.app_lists.len()] {
            // an application also REMOVES attributes from its collection: `Unknown(REMOVE_MARK, [type])` stands for
            // `remove::<T>()` of that type
            if let L::Unknown(REMOVE_MARK, Some(t)) = l {
                use stun_rs::attributes::stun::{Fingerprint, MessageIntegrity, MessageIntegritySha256, Software, UserName};
                match u16::from_be_bytes([t[0], t[1]]) {
                    codec::T_MI => drop(a.remove::<MessageIntegrity>()),
                    codec::T_SHA => drop(a.remove::<MessageIntegritySha256>()),
                    codec::T_FP => drop(a.remove::<Fingerprint>()),
                    codec::T_SOFTWARE => drop(a.remove::<Software>()),
                    codec::T_USERNAME => drop(a.remove::<UserName>()),
                    codec::T_REALM => drop(a.remove::<stun_rs::attributes::stun::Realm>()),
                    codec::T_NONCE => drop(a.remove::<stun_rs::attributes::stun::Nonce>()),
                    codec::T_PRIORITY => drop(a.remove::<stun_rs::attributes::ice::Priority>()),
                    _ => {}
                }
                continue;
            }
            if let Ok(x) = to_subject(l, Some(&key)) {
                a.add(x);
            }
        }
        a
    }

    fn drain(&mut self) -> Vec<OEv> {
        let evs = self.client.events();
        let mut out = vec![];
        for e in evs {
            out.push(match e {
                StunClientEvent::OutputPacket(p) => {
                    let bytes = p.to_vec();
                    let mut id = [0u8; 12];
                    if bytes.len() >= 20 {
                        id.copy_from_slice(&bytes[8..20]);
                    }
                    OEv::Out { who: self.who(&id), bytes }
                }
                StunClientEvent::RestransmissionTimeOut((id, d)) => {
                    let w = self.who(id.as_bytes());
                    OEv::Rto { who: w, ns: d.as_nanos() as u64 }
                }
                StunClientEvent::Retry(id) => OEv::Retry(self.who(id.as_bytes())),
                StunClientEvent::TransactionFailed((id, e)) => OEv::Failed(self.who(id.as_bytes()), reason(&e)),
                StunClientEvent::StunMessageReceived(m) => OEv::Recv {
                    who: self.who(m.transaction_id().as_bytes()),
                    class: crate::cu::class_u8(m.class()),
                    method: m.method().as_u16(),
                    attrs: m.attributes().iter().map(from_subject).collect(),
                },
            });
        }
        out
    }

    /// neutral bookkeeping of what was observed (transmissions, finals, notifications)
    fn record(&mut self, obs: &Obs, retransmit_context: bool) {
        for e in &obs.events {
            match e {
                OEv::Out { who: Who::Req(i), .. } => {
                    let now = self.now;
                    if let Some(r) = self.reqs.get_mut(*i) {
                        r.tx_times.push(now);
                        if retransmit_context {
                            r.last_handled = now;
                        }
                    }
                }
                OEv::Retry(Who::Req(i)) => self.reqs[*i].finals.push((self.now, FinalKind::Retry)),
                OEv::Failed(Who::Req(i), why) => self.reqs[*i].finals.push((self.now, FinalKind::Failed(*why))),
                OEv::Recv { who: Who::Req(i), class, .. } if *class >= 2 => self.reqs[*i].finals.push((self.now, FinalKind::Delivered(*class))),
                OEv::Rto { who, ns } => self.last_rto_event = Some((who.clone(), self.now, *ns)),
                _ => {}
            }
        }
    }

    pub fn send(&mut self, app: usize) -> Obs {
        let attrs = self.attrs(app);
        let at = self.instant();
        let m = MessageMethod::try_from(self.cfg.method).unwrap();
        // the application keeps its own handle to the collection (a template it sends again later): a clone stays alive
        // across the call
        let template = attrs.clone();
        let cap = self.buffer_cap(app);
        let r = guard(|| self.client.send_request(m, attrs, vec![DIRTY; cap], at));
        drop(template);
        self.after_send(r, app, true, m)
    }

    /// send_request with a caller buffer that is too small for any message (the encode step must fail cleanly)
    /// the caller's buffer: 2048 bytes, or 70,000 when the application list holds a long list-valued attribute
    fn buffer_cap(&self, app: usize) -> usize {
        let big = self.app_lists[app % self.app_lists.len()].iter().any(|l| matches!(l, L::UnknownAttributes(v) if v.len() > 400));
        if big { 70_000 } else { 2048 }
    }

    pub fn send_tiny(&mut self, app: usize, cap: usize) -> Obs {
        let attrs = self.attrs(app);
        let at = self.instant();
        let m = MessageMethod::try_from(self.cfg.method).unwrap();
        let r = guard(|| self.client.send_request(m, attrs, vec![DIRTY; cap], at));
        self.after_send(r, app, true, m)
    }

    pub fn send_method(&mut self, app: usize, method: u16, indication: bool) -> Obs {
        let attrs = self.attrs(app);
        let at = self.instant();
        let m = MessageMethod::try_from(method).unwrap();
        let cap = self.buffer_cap(app);
        if indication {
            let template = attrs.clone();
            let r = guard(|| self.client.send_indication(m, attrs, vec![DIRTY; cap]));
            drop(template);
            self.after_send(r, app, false, m)
        } else {
            let template = attrs.clone();
            let r = guard(|| self.client.send_request(m, attrs, vec![DIRTY; cap], at));
            drop(template);
            self.after_send(r, app, true, m)
        }
    }

    pub fn indicate(&mut self, app: usize) -> Obs {
        self.send_method(app, self.cfg.method, true)
    }

    fn after_send(&mut self, r: Result<Result<stun_rs::TransactionId, StunAgentError>, String>, app: usize, request: bool, _m: MessageMethod) -> Obs {
        self.just_advanced = false;
        let at = self.now;
        match r {
            Err(p) => {
                self.dead = Some(p.clone());
                Obs { at, res: CallRes::Panic(p), events: vec![] }
            }
            Ok(Err(e)) => {
                let events = guard(|| self.drain()).unwrap_or_default();
                Obs { at, res: if request { CallRes::SendErr(errk(e)) } else { CallRes::IndErr(errk(e)) }, events }
            }
            Ok(Ok(id)) => {
                let idb = *id.as_bytes();
                if request {
                    // the initial interval of this transaction, from H1
                    let snap = self.client.verif_snapshot();
                    let (rto_ns, rc, rm) = snap
                        .transactions
                        .iter()
                        .find(|t| t.id.as_bytes() == &idb)
                        .map(|t| (t.rtos.rtt.as_nanos() as u64, t.rtos.rc + 1, t.rtos.last_rm))
                        .unwrap_or((0, 1, 1));
                    // rc in the snapshot has already been decremented once by the first next_rto call
                    self.reqs.push(Req {
                        id: idb,
                        t0: self.now,
                        first: vec![],
                        rto_ns,
                        rc,
                        rm,
                        tx_times: vec![],
                        finals: vec![],
                        last_handled: self.now,
                        app,
                    });
                } else {
                    self.inds.push(idb);
                }
                let events = guard(|| self.drain()).unwrap_or_default();
                let res = if request { CallRes::SendOk(self.reqs.len() - 1) } else { CallRes::IndOk(self.inds.len() - 1) };
                let obs = Obs { at, res, events };
                self.record(&obs, false);
                if request {
                    let i = self.reqs.len() - 1;
                    if let Some(OEv::Out { bytes, .. }) = obs.events.iter().find(|e| matches!(e, OEv::Out { who: Who::Req(j), .. } if *j == i)) {
                        self.reqs[i].first = bytes.clone();
                    }
                }
                obs
            }
        }
    }

    pub fn timer(&mut self) -> Obs {
        self.just_advanced = false;
        let at = self.instant();
        match guard(|| self.client.on_timeout(at)) {
            Err(p) => {
                self.dead = Some(p.clone());
                Obs { at: self.now, res: CallRes::Panic(p), events: vec![] }
            }
            Ok(()) => {
                let events = guard(|| self.drain()).unwrap_or_default();
                let obs = Obs { at: self.now, res: CallRes::TimerDone, events };
                self.record(&obs, true);
                obs
            }
        }
    }

    pub fn recv(&mut self, bytes: &[u8]) -> Obs {
        self.just_advanced = false;
        let at = self.instant();
        match guard(|| self.client.on_buffer_recv(bytes, at)) {
            Err(p) => {
                self.dead = Some(p.clone());
                Obs { at: self.now, res: CallRes::Panic(p), events: vec![] }
            }
            Ok(r) => {
                let events = guard(|| self.drain()).unwrap_or_default();
                let obs = Obs { at: self.now, res: match r {
                    Ok(()) => CallRes::RecvOk,
                    Err(e) => CallRes::RecvErr(errk(e)),
                }, events };
                self.record(&obs, false);
                obs
            }
        }
    }

    pub fn advance_to(&mut self, t: u64) -> Obs {
        if t > self.now {
            self.now = t;
        }
        self.just_advanced = true;
        Obs { at: self.now, res: CallRes::Advanced, events: vec![] }
    }

    pub fn snapshot(&self) -> VerifSnapshot {
        self.client.verif_snapshot()
    }

    /// Canonical rendering of the whole client state: ids -> creation index of the request, instants -> signed
    /// offset from now (ns), unordered collections sorted.
    pub fn canon(&self) -> String {
        canon_of(&self.snapshot(), self)
    }

    /// current RTO estimate (ns) from H1
    pub fn rto_estimate(&self) -> Option<u64> {
        match self.snapshot().rtt {
            VerifRtt::Unreliable { rto, .. } => Some(rto.as_nanos() as u64),
            VerifRtt::Reliable(_) => None,
        }
    }

    pub fn awaiting(&self) -> Vec<usize> {
        (0..self.reqs.len()).filter(|i| self.reqs[*i].awaiting()).collect()
    }
}

pub fn canon_of(s: &VerifSnapshot, w: &World) -> String {
    // ids are renamed to their rank (by creation order) among the ids the client still remembers anywhere
    let mut present: Vec<usize> = vec![];
    {
        let mut note = |id: &stun_rs::TransactionId| {
            if let Who::Req(i) = w.who(id.as_bytes()) {
                if !present.contains(&i) {
                    present.push(i);
                }
            }
        };
        s.transactions.iter().for_each(|t| note(&t.id));
        s.timeouts.iter().for_each(|t| note(&t.2));
        match &s.mechanism {
            VerifMechanism::ShortTerm { violated, .. } | VerifMechanism::LongTerm { violated, .. } => violated.iter().for_each(&mut note),
            VerifMechanism::None => {}
        }
    }
    present.sort();
    let name = |id: &stun_rs::TransactionId| -> String {
        match w.who(id.as_bytes()) {
            Who::Req(i) => format!("T{}", present.iter().position(|x| *x == i).unwrap_or(99)),
            Who::Ind(i) => format!("I{}", i),
            Who::Other(_) => "X".into(),
        }
    };
    let off = |i: Instant| -> i128 {
        let now = w.instant();
        if i >= now {
            (i - now).as_nanos() as i128
        } else {
            -((now - i).as_nanos() as i128)
        }
    };
    let mut out = String::new();
    let mut tx: Vec<String> = s
        .transactions
        .iter()
        .map(|t| {
            format!(
                "{}:sent={:?}:len={}:rtos(latest={:?},last={},rtt={},rm={},rc={},lrm={})",
                name(&t.id),
                t.instant.map(off),
                t.packet.len(),
                t.rtos.latest.map(off),
                t.rtos.last_rto.as_nanos(),
                t.rtos.rtt.as_nanos(),
                t.rtos.rm,
                t.rtos.rc,
                t.rtos.last_rm
            )
        })
        .collect();
    tx.sort();
    let _ = write!(out, "tx[{}]", tx.join(";"));
    let mut heap: Vec<String> = s.timeouts.iter().map(|(i, d, id)| format!("{}@{}", name(id), off(*i + *d))).collect();
    heap.sort();
    let _ = write!(out, "|heap[{}]", heap.join(";"));
    match &s.rtt {
        VerifRtt::Reliable(d) => {
            let _ = write!(out, "|rel({})", d.as_nanos());
        }
        VerifRtt::Unreliable { rto, srtt, rttvar, granularity, configured_rto, rm, rc, last_request } => {
            // the staleness rule only compares (instant - last_request) with 600 s
            let _ = write!(
                out,
                "|unrel(rto={},srtt={},var={},g={},cfg={},rm={},rc={},last={:?})",
                rto.as_nanos(),
                srtt.as_nanos(),
                rttvar.as_nanos(),
                granularity.as_nanos(),
                configured_rto.as_nanos(),
                rm,
                rc,
                last_request.map(off)
            );
        }
    }
    match &s.mechanism {
        VerifMechanism::None => out.push_str("|none"),
        VerifMechanism::ShortTerm { integrity, violated } => {
            let mut v: Vec<String> = violated.iter().map(name).collect();
            v.sort();
            let _ = write!(out, "|st({:?},viol[{}])", integrity, v.join(","));
        }
        VerifMechanism::LongTerm { state, params, violated } => {
            let mut v: Vec<String> = violated.iter().map(name).collect();
            v.sort();
            let _ = write!(out, "|lt({},{:?},viol[{}])", state, params, v.join(","));
        }
    }
    let _ = write!(out, "|fp={}|max={}|pend={}", s.use_fingerprint, s.max_transactions, s.pending_events);
    out
}

pub fn hash128(s: &str) -> u128 {
    use std::hash::{Hash, Hasher};
    let mut a = std::collections::hash_map::DefaultHasher::new();
    s.hash(&mut a);
    let mut b = std::collections::hash_map::DefaultHasher::new();
    0x9E3779B97F4A7C15u64.hash(&mut b);
    s.hash(&mut b);
    ((a.finish() as u128) << 64) | b.finish() as u128
}

pub fn show_events(evs: &[OEv]) -> Vec<String> {
    evs.iter()
        .map(|e| match e {
            OEv::Out { who, bytes } => format!("Out({:?},{} bytes)", who, bytes.len()),
            OEv::Rto { who, ns } => format!("Rto({:?},{} ms)", who, *ns as f64 / 1e6),
            OEv::Recv { who, class, attrs, .. } => format!("Recv({:?},class {},{} attrs)", who, class, attrs.len()),
            o => format!("{:?}", o),
        })
        .collect()
}

#[allow(dead_code)]
pub fn parse_out(bytes: &[u8]) -> Option<codec::Parsed> {
    codec::ref_parse(bytes).ok()
}
