//! C17 A rejected buffer changes nothing.

use super::explore::{self, bfs_with, Event, Monitor, Step, Target, TimeDetail};
use super::server::{Chal, NonceKind, PasKind, RClass, RFp, RMac, Reply};
use super::world::{CallRes, Cfg, FinalKind, Mech, OEv, Obs, Reason, Transport, World};
use crate::refs::codec::L;
use crate::util::{Finish, Report, RunCtx, Shared};
use rayon::prelude::*;
use serde_json::json;
use std::sync::Arc;

fn fp_of(cfg: &Cfg) -> RFp {
    if cfg.fingerprint {
        RFp::Valid
    } else {
        RFp::Absent
    }
}

/// replies the configuration accepts (they move the exploration forward)
fn accepted_menu(cfg: &Cfg) -> Vec<Reply> {
    let fp = fp_of(cfg);
    let ok = Reply::plain(RClass::Success).with_fp(fp);
    let err = Reply::plain(RClass::Error(400)).with_fp(fp);
    match cfg.mech {
        Mech::None => vec![ok, err],
        Mech::ShortTerm(Some(true)) => vec![ok.with_mac(RMac::Sha)],
        Mech::ShortTerm(Some(false)) => vec![ok.with_mac(RMac::Mi), err.with_mac(RMac::Mi)],
        Mech::ShortTerm(None) => vec![ok.with_mac(RMac::Mi), ok.with_mac(RMac::Sha)],
        Mech::LongTerm => vec![
            Reply::plain(RClass::Error(401)).with_chal(Chal { realm: true, nonce: NonceKind::Plain(1), pas: PasKind::Absent, realm_v: 0, order: 0 }).with_fp(fp),
            Reply::plain(RClass::Error(401)).with_chal(Chal { realm: true, nonce: NonceKind::Cookie(true, false, 2), pas: PasKind::Md5Sha256, realm_v: 0, order: 0 }).with_fp(fp),
            ok.with_mac(RMac::Mi),
            ok.with_mac(RMac::Sha),
            Reply::plain(RClass::Error(438)).with_chal(Chal { realm: false, nonce: NonceKind::Plain(3), pas: PasKind::Absent, realm_v: 0, order: 0 }).with_fp(fp),
        ],
    }
}

/// (name, target, reply or raw bytes) of every rejected-buffer kind that makes sense for the configuration
fn rejected_menu(cfg: &Cfg, w: &World) -> Vec<(&'static str, Event)> {
    let fp = fp_of(cfg);
    let mut v: Vec<(&'static str, Event)> = vec![
        ("undecodable-garbage", Event::RawBytes(vec![0x42; 33])),
        ("undecodable-truncated-header", Event::RawBytes(vec![0x01, 0x01, 0x00, 0x00, 0x21, 0x12, 0xA4])),
    ];
    let awaiting = w.awaiting();
    let finished: Option<usize> = (0..w.reqs.len()).rev().find(|i| !w.reqs[*i].awaiting());
    let first_ok = accepted_menu(cfg).into_iter().find(|r| r.class == RClass::Success).unwrap_or(Reply::plain(RClass::Success));
    v.push(("reply-for-unknown-id", Event::Deliver { to: Target::Unknown, reply: first_ok }));
    // ... and for ids that merely look like an outstanding one (rotating through the look-alike kinds with the history)
    if let Some(i) = awaiting.last() {
        let k = (w.reqs.len() * 5 + w.snapshot().timeouts.len() + awaiting.len() * 3) as u8;
        v.push(("reply-for-unknown-id", Event::Deliver { to: Target::Near(*i, k), reply: first_ok }));
    }
    if let Some(i) = finished {
        v.push(("reply-for-finished-id", Event::Deliver { to: Target::Req(i), reply: first_ok }));
    }
    for i in awaiting.iter().take(2) {
        let t = Target::Req(*i);
        v.push(("request-class", Event::Deliver { to: t.clone(), reply: Reply { class: RClass::Request, ..first_ok } }));
        if cfg.fingerprint {
            v.push(("bad-fingerprint", Event::Deliver { to: t.clone(), reply: first_ok.with_fp(RFp::Bad) }));
            v.push(("missing-fingerprint", Event::Deliver { to: t.clone(), reply: first_ok.with_fp(RFp::Absent) }));
            v.push(("misplaced-fingerprint", Event::Deliver { to: t.clone(), reply: first_ok.with_fp(RFp::MisplacedWrongLen) }));
            v.push(("wrong-fingerprint-with-trailer-beyond-the-message", Event::Deliver { to: t.clone(), reply: first_ok.with_fp(RFp::BadWithResidueTrailer) }));
            v.push(("wrong-fingerprint-with-trailer-beyond-the-message", Event::Deliver { to: t.clone(), reply: first_ok.with_fp(RFp::BadWithLookalikeTrailer) }));
            v.push(("wrong-fingerprint-then-decoy", Event::Deliver { to: t.clone(), reply: first_ok.with_fp(RFp::BadThenDecoy) }));
            v.push(("wrong-fingerprint-then-second-fingerprint", Event::Deliver { to: t.clone(), reply: first_ok.with_fp(RFp::BadThenSecondFp) }));
        }
        match cfg.mech {
            Mech::ShortTerm(alg) => {
                if !cfg.reliable() {
                    v.push(("auth-failing-response-unreliable/corrupted", Event::Deliver { to: t.clone(), reply: Reply::plain(RClass::Success).with_mac(RMac::BadMi).with_fp(fp) }));
                    v.push(("auth-failing-response-unreliable/absent", Event::Deliver { to: t.clone(), reply: Reply::plain(RClass::Error(400)).with_fp(fp) }));
                    v.push(("auth-failing-response-unreliable/other-password", Event::Deliver { to: t.clone(), reply: Reply::plain(RClass::Success).with_mac(RMac::ShaOtherPass).with_fp(fp) }));
                    v.push(("auth-failing-response-unreliable/corrupted", Event::Deliver { to: t.clone(), reply: Reply::plain(RClass::Error(400)).with_mac(RMac::BadSha).with_fp(fp) }));
                    v.push(("auth-failing-response-unreliable/other-password", Event::Deliver { to: t.clone(), reply: Reply::plain(RClass::Error(420)).with_mac(RMac::MiOtherPass).with_fp(fp) }));
                }
                v.push(("both-macs-response", Event::Deliver { to: t.clone(), reply: Reply::plain(RClass::Success).with_mac(RMac::Both).with_fp(fp) }));
                if !cfg.reliable() {
                    // only the non-agreed algorithm (meaningful once one is configured; when it is still to be
                    // learned the world decides at run time whether this is rejected)
                    let other = match alg {
                        Some(true) => RMac::Mi,
                        _ => RMac::Sha,
                    };
                    if alg.is_some() {
                        v.push(("wrong-algorithm-response", Event::Deliver { to: t.clone(), reply: Reply::plain(RClass::Success).with_mac(other).with_fp(fp) }));
                    }
                }
            }
            Mech::LongTerm => {
                v.push(("401-without-realm", Event::Deliver { to: t.clone(), reply: Reply::plain(RClass::Error(401)).with_chal(Chal { realm: false, nonce: NonceKind::Plain(7), pas: PasKind::Absent, realm_v: 0, order: 0 }).with_fp(fp) }));
                v.push(("401-without-nonce", Event::Deliver { to: t.clone(), reply: Reply::plain(RClass::Error(401)).with_chal(Chal { realm: true, nonce: NonceKind::Absent, pas: PasKind::Absent, realm_v: 0, order: 0 }).with_fp(fp) }));
                v.push(("438-without-nonce", Event::Deliver { to: t.clone(), reply: Reply::plain(RClass::Error(438)).with_fp(fp) }));
                // ... and carrying an integrity attribute that verifies / does not verify: still unusable, still a no-op
                // (whatever authentication does as a side effect must not happen for a buffer that ends up rejected)
                for mac in [RMac::Mi, RMac::Sha, RMac::BadMi, RMac::MiOtherPass] {
                    v.push(("438-without-nonce-with-integrity", Event::Deliver { to: t.clone(), reply: Reply::plain(RClass::Error(438)).with_mac(mac).with_fp(fp) }));
                    v.push(("401-without-nonce-with-integrity", Event::Deliver { to: t.clone(), reply: Reply::plain(RClass::Error(401)).with_chal(Chal { realm: true, nonce: NonceKind::Absent, pas: PasKind::Absent, realm_v: 0, order: 0 }).with_mac(mac).with_fp(fp) }));
                }
                // an error response that carries no ERROR-CODE at all: unauthenticated, authenticated, wrongly authenticated
                for mac in [RMac::None, RMac::Mi, RMac::Sha, RMac::BadMi, RMac::ShaOtherPass] {
                    v.push(("error-response-without-error-code", Event::Deliver { to: t.clone(), reply: Reply::plain(RClass::ErrorNoCode).with_mac(mac).with_fp(fp) }));
                }
                // a success response carrying both integrity attributes (the one that is not in force makes it unacceptable)
                v.push(("both-macs-response", Event::Deliver { to: t.clone(), reply: Reply::plain(RClass::Success).with_mac(RMac::Both).with_fp(fp) }));
                if !cfg.reliable() {
                    v.push(("auth-failing-response-unreliable/absent", Event::Deliver { to: t.clone(), reply: Reply::plain(RClass::Success).with_fp(fp) }));
                    v.push(("auth-failing-response-unreliable/other-password", Event::Deliver { to: t.clone(), reply: Reply::plain(RClass::Success).with_mac(RMac::MiOtherPass).with_fp(fp) }));
                    v.push(("auth-failing-response-unreliable/corrupted", Event::Deliver { to: t.clone(), reply: Reply::plain(RClass::Error(500)).with_mac(RMac::BadMi).with_fp(fp) }));
                    v.push(("auth-failing-response-unreliable/other-password", Event::Deliver { to: t.clone(), reply: Reply::plain(RClass::Error(420)).with_mac(RMac::ShaOtherPass).with_fp(fp) }));
                    // challenges whose own integrity attribute does not verify: complete 401 / 438 carrying new realm, nonce
                    // and algorithms that must NOT be adopted
                    for (mac, pas, nonce) in [
                        (RMac::BadMi, PasKind::Absent, NonceKind::Plain(21)),
                        (RMac::MiOtherPass, PasKind::Absent, NonceKind::Plain(22)),
                        (RMac::ShaOtherPass, PasKind::Md5Sha256, NonceKind::Cookie(true, true, 23)),
                        (RMac::BadSha, PasKind::Sha256, NonceKind::Cookie(true, false, 24)),
                    ] {
                        v.push(("401-failing-auth-unreliable", Event::Deliver { to: t.clone(), reply: Reply::plain(RClass::Error(401)).with_chal(Chal { realm: true, nonce, pas, realm_v: 0, order: 0 }).with_mac(mac).with_fp(fp) }));
                        v.push(("438-failing-auth-unreliable", Event::Deliver { to: t.clone(), reply: Reply::plain(RClass::Error(438)).with_chal(Chal { realm: false, nonce, pas, realm_v: 0, order: 0 }).with_mac(mac).with_fp(fp) }));
                    }
                }
            }
            Mech::None => {}
        }
    }
    if !matches!(cfg.mech, Mech::None) {
        v.push(("indication-failing-auth", Event::Deliver { to: Target::Unknown, reply: Reply::plain(RClass::Indication).with_mac(RMac::BadMi).with_fp(fp) }));
        v.push(("indication-without-integrity", Event::Deliver { to: Target::Unknown, reply: Reply::plain(RClass::Indication).with_fp(fp) }));
    }
    v
}

/// split the canonical rendering into (everything but the violated sets, the violated sets)
fn split_violated(c: &str) -> (String, Vec<String>) {
    let mut rest = String::new();
    let mut viol = vec![];
    let mut s = c;
    while let Some(ix) = s.find("viol[") {
        rest.push_str(&s[..ix]);
        let after = &s[ix + 5..];
        let end = after.find(']').unwrap_or(after.len());
        viol.extend(after[..end].split(',').filter(|x| !x.is_empty()).map(|x| x.to_string()));
        s = &after[end..];
    }
    rest.push_str(s);
    (rest, viol)
}

fn name_of_event(w: &World, ev: &Event) -> &'static str {
    rejected_menu(&w.cfg, w).into_iter().find(|(_, e)| e == ev).map(|(n, _)| n).unwrap_or("accepted-kind-refused")
}

#[derive(Clone)]
pub struct Mon {
    pub max_sends: usize,
    /// finals each request had before the current step
    finals_before: Vec<usize>,
}

impl Mon {
    pub fn new(max_sends: usize) -> Mon {
        Mon { max_sends, finals_before: vec![] }
    }
}

/// Is the event, judged by the facts BEFORE the step, a buffer of a kind the statement lists as rejected?
fn must_reject_kind(cfg: &Cfg, ev: &Event, finals_before: &[usize]) -> Option<&'static str> {
    match ev {
        Event::RawBytes(_) => Some("undecodable-bytes"),
        Event::Deliver { reply, .. } if reply.class == RClass::Request => Some("request-class"),
        Event::Deliver { reply, .. } if cfg.fingerprint && reply.fp != RFp::Valid => Some("bad-or-missing-fingerprint"),
        Event::Deliver { to: Target::Unknown | Target::Near(..), reply } if matches!(reply.class, RClass::Success | RClass::Error(_) | RClass::ErrorNoCode) => Some("reply-for-unknown-id"),
        Event::Deliver { to: Target::Req(i), reply } if matches!(reply.class, RClass::Success | RClass::Error(_) | RClass::ErrorNoCode) && finals_before.get(*i).copied().unwrap_or(0) > 0 => {
            Some("reply-for-finished-id")
        }
        _ => None,
    }
}

impl Monitor for Mon {
    fn fresh(&self) -> Box<dyn Monitor> {
        Box::new(Mon::new(self.max_sends))
    }
    fn on_step(&mut self, w: &World, st: &Step, rep: Option<(&mut Report, &[Event])>) {
        let finals_before = std::mem::replace(&mut self.finals_before, w.reqs.iter().map(|r| r.finals.len()).collect());
        let Some((rep, hist)) = rep else { return };
        let replay = || explore::history_replay(w, hist, st.obs);
        if let CallRes::Panic(p) = &st.obs.res {
            rep.violate(format!("client-panics/{}", crate::util::panic_site(p)), p.clone(), replay());
            return;
        }
        // kinds the statement itself lists as rejected: undecodable bytes, a request, a response for an unknown or a
        // finished transaction, a bad or missing fingerprint - accepting one of them is a violation in itself
        if let CallRes::RecvOk = &st.obs.res {
            if let Some(kind) = must_reject_kind(&w.cfg, st.ev, &finals_before) {
                rep.violate(format!("buffer-listed-as-rejected-is-accepted/{}", kind), format!("{:?}", super::world::show_events(&st.obs.events)), replay());
                return;
            }
        }
        // direct oracle: every buffer the client refuses leaves no trace
        if let CallRes::RecvErr(_) = &st.obs.res {
            let kind = name_of_event(w, st.ev);
            if !st.obs.events.is_empty() {
                rep.violate(format!("rejected-buffer-produces-events/{}", kind), format!("{:?}", super::world::show_events(&st.obs.events)), replay());
                return;
            }
            if st.before != st.after {
                let (b_rest, b_viol) = split_violated(st.before);
                let (a_rest, a_viol) = split_violated(st.after);
                // the single documented exception: the marker of a response that failed authentication on
                // unreliable transport
                let is_response = matches!(st.ev, Event::Deliver { reply: Reply { class: RClass::Success | RClass::Error(_), .. }, to: Target::Req(_) });
                let only_marker_added = b_rest == a_rest && b_viol.iter().all(|x| a_viol.contains(x)) && a_viol.len() == b_viol.len() + 1;
                if only_marker_added && is_response && !w.cfg.reliable() && !matches!(w.cfg.mech, Mech::None) {
                    rep.sym("marker-exception");
                } else {
                    let what = if b_rest != a_rest { "state" } else { "violated-markers" };
                    rep.violate(format!("rejected-buffer-changes-{}/{}", what, kind), format!("before {} | after {}", st.before, st.after), replay());
                }
            } else {
                rep.sym("rejected-and-unchanged");
                rep.sym(kind);
            }
        }
    }
    fn key(&self, w: &World) -> String {
        format!("{}", w.reqs.len())
    }
    fn enabled(&self, w: &World) -> Vec<Event> {
        let mut v = vec![];
        if w.reqs.len() < self.max_sends {
            v.push(Event::Send { app: 0 });
        }
        if !w.awaiting().is_empty() {
            v.push(Event::Timer);
            for t in explore::time_reps(w, TimeDetail::Coarse) {
                if !w.just_advanced {
                    v.push(Event::AdvanceTo(t));
                }
            }
        }
        for i in w.awaiting().into_iter().take(2) {
            for r in accepted_menu(&w.cfg) {
                v.push(Event::Deliver { to: Target::Req(i), reply: r });
            }
        }
        if !w.reqs.is_empty() {
            v.extend(rejected_menu(&w.cfg, w).into_iter().map(|x| x.1));
        }
        v
    }
}

/// observable trace of a fixed continuation: drive every outstanding request to completion by the announced
/// timers, then one more exchange (shows credential state, learned algorithm, RTT estimate, capacity)
fn continuation(run: &mut explore::Run) -> Vec<String> {
    let mut out = vec![];
    let mut note = |tag: &str, obs: &Obs, out: &mut Vec<String>| {
        let evs: Vec<String> = obs
            .events
            .iter()
            .map(|e| match e {
                OEv::Out { who, bytes } => {
                    // ids differ between runs: describe the packet by its attribute types and length
                    let types: Vec<u16> = crate::refs::codec::ref_parse(bytes).map(|p| p.tlvs.iter().map(|t| t.ty).collect()).unwrap_or_default();
                    format!("Out({:?},{} bytes,{:04x?})", who, bytes.len(), types)
                }
                // which of several requests with the SAME deadline is named is left open (it may even depend on the random
                // ids): the notification is described by the time left only; C11 checks that the named request is an earliest one
                OEv::Rto { ns, .. } => format!("Rto {{ ns: {} }}", ns),
                o => format!("{:?}", o),
            })
            .collect();
        // the order of the events of one call is not fixed for different transactions either: compared as a multiset
        let mut evs = evs;
        evs.sort();
        out.push(format!("{} -> {:?} {:?}", tag, obs.res, evs));
    };
    let mut guard = 0;
    while !run.w.awaiting().is_empty() && guard < 40 && run.w.dead.is_none() {
        guard += 1;
        let t = run.w.awaiting().iter().map(|i| run.w.reqs[*i].pending_deadline()).min().unwrap().max(run.w.now);
        let o = explore::step(run, &Event::TimerAt(t), None);
        note(&format!("TimerAt(+{})", t - run.w.now.min(t)), &o, &mut out);
    }
    let o = explore::step(run, &Event::Send { app: 0 }, None);
    note("Send", &o, &mut out);
    if let Some(r) = run.w.reqs.last() {
        out.push(format!("rto={}", r.rto_ns));
    }
    if let CallRes::SendOk(i) = o.res {
        for r in accepted_menu(&run.w.cfg).into_iter().take(1) {
            let o = explore::step(run, &Event::Deliver { to: Target::Req(i), reply: r }, None);
            note("Deliver(accepted)", &o, &mut out);
        }
    }
    out.push(format!("final-state {}", run.w.canon()));
    out
}

pub fn run(ctx: &RunCtx) -> i32 {
    let thorough = ctx.thorough();
    let apps: Arc<Vec<Vec<L>>> = Arc::new(vec![vec![]]);
    let shared = Shared::new();
    let mut cfgs = vec![];
    let unrel = Transport::Unreliable { rto_ms: 100, gran_ms: 1, rm: 2, rc: 2 };
    let rel = Transport::Reliable { timeout_ms: 300 };
    for (t, m, fp) in [
        (unrel, Mech::None, false),
        (unrel, Mech::None, true),
        (unrel, Mech::ShortTerm(None), false),
        (unrel, Mech::ShortTerm(Some(false)), true),
        (unrel, Mech::ShortTerm(Some(true)), false),
        (rel, Mech::ShortTerm(None), false),
        (unrel, Mech::LongTerm, false),
        (rel, Mech::LongTerm, true),
    ] {
        cfgs.push(Cfg { transport: t, mech: m, fingerprint: fp, max_tx: 3, cred: 0, method: 1 });
    }
    let depth = if thorough { 10 } else { 8 };
    let per: Vec<_> = cfgs
        .par_iter()
        .map(|cfg| {
            let mut r = Report::new();
            let proto = Mon::new(3);
            // differential oracle at every visited state: the continuation with and without the rejected buffer
            let visit = |hist: &[Event], rep: &mut Report| {
                let base = explore::replay(cfg, &apps, &proto, hist);
                if base.w.reqs.is_empty() || base.w.dead.is_some() {
                    return;
                }
                let kinds = rejected_menu(cfg, &base.w);
                let mut a = base;
                let trace_a = continuation(&mut a);
                for (name, ev) in kinds {
                    let mut b = explore::replay(cfg, &apps, &proto, hist);
                    let o = explore::step(&mut b, &ev, None);
                    if !matches!(o.res, CallRes::RecvErr(_)) {
                        continue; // not rejected in this state (e.g. algorithm not learned yet): nothing to compare
                    }
                    rep.eval();
                    let target = if let Event::Deliver { to: Target::Req(i), .. } = &ev { Some(*i) } else { None };
                    let trace_b = continuation(&mut b);
                    // the single allowed difference: TimedOut -> ProtectionViolated for the target's final
                    let norm = |t: &[String], i: Option<usize>| -> Vec<String> {
                        t.iter()
                            .filter(|l| !l.starts_with("final-state"))
                            .map(|l| match i {
                                Some(i) => l.replace(&format!("Failed(Req({}), ProtectionViolated)", i), &format!("Failed(Req({}), TimedOut)", i)),
                                None => l.clone(),
                            })
                            .collect()
                    };
                    // (no marker exception for these: they are not responses whose integrity value is wrong)
                    let same = if name.starts_with("auth-failing-response-unreliable") || name == "wrong-algorithm-response" || name.ends_with("failing-auth-unreliable") {
                        norm(&trace_a, target) == norm(&trace_b, target)
                    } else {
                        trace_a == trace_b
                    };
                    if !same {
                        let ix = trace_a.iter().zip(trace_b.iter()).position(|(x, y)| x != y).unwrap_or(0);
                        rep.violate(
                            format!("continuation-differs-after-rejected-buffer/{}", name),
                            format!("step {}: without: {} | with: {}", ix, trace_a.get(ix).cloned().unwrap_or_default(), trace_b.get(ix).cloned().unwrap_or_default()),
                            json!({"config": cfg.show(), "events": explore::show_history(hist), "inserted": ev.show()}),
                        );
                    } else {
                        rep.sym("continuation-identical");
                    }
                }
            };
            let st = bfs_with(cfg, &apps, &proto, depth, if thorough { 3_000_000 } else { 600_000 }, &mut r, Some(&visit));
            r.states = st.states;
            r.transitions = st.transitions;
            r.sym("bfs-configs");
            shared.merge(r);
            json!({"config": cfg.show(), "depth": st.depth_completed, "states": st.states, "transitions": st.transitions})
        })
        .collect();
    // many requests carrying the violated marker at once (N = 40; thorough also 70, 130, 260): every request gets a response
    // under another password, in order and again in reverse order; each of those rejected buffers may add its own marker
    // and must leave every other marker (and everything else) alone; then all time out
    {
        let ns: Vec<usize> = if thorough { vec![40, 70, 130, 260] } else { vec![40] };
        ns.par_iter().for_each(|n| {
            let cfg = Cfg { transport: Transport::Unreliable { rto_ms: 100, gran_ms: 1, rm: 2, rc: 1 }, mech: Mech::ShortTerm(Some(false)), fingerprint: false, max_tx: *n, cred: 0, method: 1 };
            let mut r = Report::new();
            let proto = Mon::new(*n);
            let mut run = explore::start(&cfg, &apps, &proto);
            let mut hist: Vec<Event> = vec![];
            let mut evs: Vec<Event> = (0..*n).map(|_| Event::Send { app: 0 }).collect();
            let bad = Reply::plain(RClass::Success).with_mac(RMac::MiOtherPass);
            evs.extend((0..*n).map(|i| Event::Deliver { to: Target::Req(i), reply: bad }));
            evs.extend((0..*n).rev().map(|i| Event::Deliver { to: Target::Req(i), reply: Reply::plain(RClass::Error(400)).with_mac(RMac::BadMi) }));
            evs.push(Event::AdvanceTo(300 * super::world::MS));
            evs.push(Event::Timer);
            for ev in evs {
                hist.push(ev.clone());
                let h = hist.clone();
                let o = explore::step(&mut run, &ev, Some((&mut r, &h)));
                r.transitions += 1;
                if let Event::Timer = ev {
                    let pv = o.events.iter().filter(|e| matches!(e, OEv::Failed(_, Reason::ProtectionViolated))).count();
                    if pv != *n {
                        r.violate(
                            "marked-request-does-not-end-protection-violated/many-marked",
                            format!("{} of {} requests ended ProtectionViolated", pv, n),
                            json!({"config": cfg.show(), "requests": n, "what": "every request got two responses failing authentication; all time out in one call"}),
                        );
                    }
                }
            }
            r.sym("many-marked-requests");
            shared.merge(r);
        });
    }
    let mut rep = shared.into_inner();
    rep.extra.insert("per_config".into(), json!(per));
    let _ = (FinalKind::Retry, Reason::TimedOut);
    crate::util::finish(
        ctx,
        rep,
        Finish {
            level: "model_checking",
            rule: format!("breadth-first exploration of the real client to depth {} for 8 transport x mechanism x fingerprint configurations (limit 3) over {{Send, Timer, AdvanceTo, Deliver(accepted reply kinds of the mechanism incl. 401 / 438 challenges), every rejected-buffer kind: undecodable (garbage, truncated), request class, reply for an unknown id, reply for a finished id, bad / missing / misplaced FINGERPRINT, a wrong FINGERPRINT followed by a decoy attribute or by a second FINGERPRINT, a wrong FINGERPRINT with crafted bytes in the buffer beyond the end of the message (CRC-residue trailer, FINGERPRINT look-alike), auth-failing response on unreliable transport (corrupted, absent, other password), both-MACs response, wrong-algorithm response, 401 without realm / nonce, 438 without nonce (also carrying a valid / invalid integrity attribute), an error response without ERROR-CODE (5 integrity variants), a long-term success response with both MACs, complete 401 / 438 challenges (new realm / nonce / algorithms) whose own integrity attribute fails, indication failing authentication / without integrity}}. A buffer of a kind the statement lists as rejected (undecodable bytes, a request, a response for an unknown or finished id, a bad / missing fingerprint) that is accepted is a violation in itself. Direct oracle on every transition whose call returned Err: no events and a byte-identical canonical snapshot before/after, the only tolerated change being one added violated marker for a response on unreliable transport with credentials. A directed run with 40 (thorough up to 260) requests outstanding, each rejected twice for failing authentication, checks that a rejection touches no marker but its own. Differential oracle at every visited state: a fixed continuation (all outstanding requests driven to their final outcome by the pending deadlines, one more exchange, RTO of the new request, final snapshot) is run with and without each rejected kind inserted and must produce identical observations (only TimedOut -> ProtectionViolated for the affected request may differ)", depth),
            assumptions: vec!["the feature-gated snapshot renders every field of StunClient except the stateless encoder / decoder".into()],
            required_symbols: vec!["bfs-configs", "rejected-and-unchanged", "marker-exception", "continuation-identical", "undecodable-garbage", "request-class", "reply-for-unknown-id", "reply-for-finished-id", "bad-fingerprint", "missing-fingerprint", "both-macs-response", "wrong-algorithm-response", "401-without-realm", "438-without-nonce", "401-failing-auth-unreliable", "438-failing-auth-unreliable", "error-response-without-error-code", "438-without-nonce-with-integrity", "indication-failing-auth", "many-marked-requests"],
            min_outcomes: 8,
            exhaustive: true,
            bounds: json!({"depth": depth}),
        },
    )
}
