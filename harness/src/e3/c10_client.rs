//! Client part of C10 (placeholder until the E3 core lands).
use crate::util::{Report, RunCtx};
pub fn run(_ctx: &RunCtx, _rep: &mut Report) {}
