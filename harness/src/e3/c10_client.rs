//! Client part of C10: a client configured to use fingerprints appends a valid FINGERPRINT as the last attribute of
//! everything it sends and never delivers, nor lets complete a transaction, a message whose FINGERPRINT is
//! missing or wrong.

use super::explore::{self, bfs, Event, Monitor, Step, Target, TimeDetail};
use super::server::{Chal, NonceKind, PasKind, RClass, RFp, RMac, Reply};
use super::world::{CallRes, Cfg, Mech, OEv, Transport, World};
use crate::refs::codec::{self, ref_parse, L};
use crate::util::{Report, RunCtx};
use rayon::prelude::*;
use serde_json::json;
use std::sync::Arc;

fn base_replies(cfg: &Cfg) -> Vec<Reply> {
    let ok = Reply::plain(RClass::Success);
    let err = Reply::plain(RClass::Error(400));
    match cfg.mech {
        Mech::None => vec![ok, err],
        Mech::ShortTerm(Some(true)) => vec![ok.with_mac(RMac::Sha)],
        Mech::ShortTerm(_) => vec![ok.with_mac(RMac::Mi), err.with_mac(RMac::Mi)],
        Mech::LongTerm => vec![
            Reply::plain(RClass::Error(401)).with_chal(Chal { realm: true, nonce: NonceKind::Plain(1), pas: PasKind::Absent, realm_v: 0, order: 0 }),
            ok.with_mac(RMac::Mi),
        ],
    }
}

fn fp_name(f: RFp) -> &'static str {
    match f {
        RFp::Valid => "valid",
        RFp::Bad => "one-bit-wrong",
        RFp::Absent => "absent",
        RFp::MisplacedWrongLen => "misplaced",
        RFp::BadThenDecoy => "wrong-then-decoy",
        RFp::BadThenSecondFp => "wrong-then-second-fingerprint",
        RFp::ValueOfPrevious => "value-of-the-previous-message",
        RFp::BadWithUnknownRequired => "wrong-next-to-an-unknown-required-attribute",
        RFp::AbsentWithUnknownRequired => "absent-next-to-an-unknown-required-attribute",
        RFp::ValidWithUnknownRequired => "valid-next-to-an-unknown-required-attribute",
        RFp::BadWithResidueTrailer => "wrong-with-a-crc-residue-trailer-beyond-the-message",
        RFp::BadWithLookalikeTrailer => "wrong-with-a-fingerprint-lookalike-beyond-the-message",
    }
}

#[derive(Clone)]
struct Mon {
    finals_before: Vec<usize>,
}

impl Monitor for Mon {
    fn fresh(&self) -> Box<dyn Monitor> {
        Box::new(Mon { finals_before: vec![] })
    }
    fn on_step(&mut self, w: &World, st: &Step, rep: Option<(&mut Report, &[Event])>) {
        let finals_before = std::mem::replace(&mut self.finals_before, w.reqs.iter().map(|r| r.finals.len()).collect());
        let Some((rep, hist)) = rep else { return };
        let replay = || explore::history_replay(w, hist, st.obs);
        if let CallRes::Panic(p) = &st.obs.res {
            rep.violate(format!("client/client-panics/{}", crate::util::panic_site(p)), p.clone(), replay());
            return;
        }
        for e in &st.obs.events {
            if let OEv::Out { bytes, .. } = e {
                match ref_parse(bytes) {
                    Ok(p) => match p.tlvs.last() {
                        Some(t) if t.ty == codec::T_FP && codec::fp_ok(bytes, t) => rep.sym("client-packet-ends-in-valid-fingerprint"),
                        Some(t) if t.ty == codec::T_FP => rep.violate("client/outgoing-fingerprint-wrong-crc", "", replay()),
                        _ => rep.violate("client/outgoing-packet-without-final-fingerprint", format!("{:04x?}", p.tlvs.iter().map(|t| t.ty).collect::<Vec<_>>()), replay()),
                    },
                    Err(e) => rep.violate("client/outgoing-packet-unparseable", e, replay()),
                }
            }
        }
        if let Event::Deliver { to, reply } = st.ev {
            let delivered = st.obs.events.iter().any(|e| matches!(e, OEv::Recv { .. }));
            let new_final = w.reqs.iter().enumerate().any(|(i, r)| r.finals.len() > finals_before.get(i).copied().unwrap_or(0));
            let what = if reply.class == RClass::Indication { "indication" } else { "response" };
            if reply.fp != RFp::Valid {
                if delivered {
                    rep.violate(format!("client/message-with-{}-fingerprint-delivered/{}", fp_name(reply.fp), what), "", replay());
                } else if new_final {
                    rep.violate(format!("client/message-with-{}-fingerprint-completes-transaction/{}", fp_name(reply.fp), what), format!("{:?}", super::world::show_events(&st.obs.events)), replay());
                } else if !matches!(st.obs.res, CallRes::RecvErr(_)) {
                    rep.violate(format!("client/message-with-{}-fingerprint-not-refused/{}", fp_name(reply.fp), what), format!("{:?}", st.obs.res), replay());
                } else {
                    rep.sym("client-rejected-bad-or-missing-fingerprint");
                    rep.sym(fp_name(reply.fp));
                }
            } else if let Target::Req(i) = to {
                // a good reply still completes the request (it stayed outstanding through the rejected ones)
                let awaiting_before = finals_before.get(*i).copied().unwrap_or(1) == 0;
                // (long-term: only the 401 challenge is acceptable in every state)
                // (a reply whose FINGERPRINT is right but whose integrity is wrong is the mechanism's business, not judged here)
                let judge = (!matches!(w.cfg.mech, Mech::LongTerm) || reply.class == RClass::Error(401)) && !matches!(reply.mac, RMac::BadMi | RMac::BadSha | RMac::MiOtherPass | RMac::ShaOtherPass);
                if awaiting_before && reply.class != RClass::Indication && judge {
                    if !new_final {
                        rep.violate("client/good-reply-with-valid-fingerprint-does-not-complete", format!("{:?}", st.obs.res), replay());
                    } else {
                        rep.sym("client-completed-by-good-reply");
                    }
                }
            }
        }
    }
    fn key(&self, w: &World) -> String {
        format!("{}|{}", w.reqs.len(), w.inds.len())
    }
    fn enabled(&self, w: &World) -> Vec<Event> {
        let mut v = vec![];
        if w.reqs.len() < 3 && w.awaiting().len() < 2 {
            v.push(Event::Send { app: 0 });
            // application list that already contains a FINGERPRINT (must be replaced, still last)
            v.push(Event::Send { app: 1 });
        }
        if w.inds.len() < 2 && !matches!(w.cfg.mech, Mech::LongTerm) {
            v.push(Event::Indicate { app: w.inds.len() });
        }
        if !w.awaiting().is_empty() {
            v.push(Event::Timer);
            for t in explore::time_reps(w, TimeDetail::Coarse) {
                if !w.just_advanced {
                    v.push(Event::AdvanceTo(t));
                }
            }
        }
        // short-term, unreliable: a response with a right FINGERPRINT and a wrong MAC is ignored and leaves the request
        // outstanding - whatever the client remembers of it must not help a later message
        if matches!(w.cfg.mech, Mech::ShortTerm(_)) && !w.cfg.reliable() {
            for i in w.awaiting() {
                let wrong = if matches!(w.cfg.mech, Mech::ShortTerm(Some(true))) { RMac::BadSha } else { RMac::BadMi };
                v.push(Event::Deliver { to: Target::Req(i), reply: Reply::plain(RClass::Success).with_mac(wrong).with_fp(RFp::Valid) });
            }
        }
        for i in w.awaiting() {
            for r in base_replies(&w.cfg) {
                for f in [RFp::Valid, RFp::Bad, RFp::Absent, RFp::MisplacedWrongLen, RFp::BadThenDecoy, RFp::BadThenSecondFp, RFp::ValueOfPrevious, RFp::BadWithUnknownRequired, RFp::AbsentWithUnknownRequired, RFp::BadWithResidueTrailer, RFp::BadWithLookalikeTrailer] {
                    v.push(Event::Deliver { to: Target::Req(i), reply: r.with_fp(f) });
                }
            }
        }
        if !w.reqs.is_empty() {
            let mac = match w.cfg.mech {
                Mech::ShortTerm(Some(true)) => RMac::Sha,
                Mech::ShortTerm(_) => RMac::Mi,
                _ => RMac::None,
            };
            for f in [RFp::Valid, RFp::Bad, RFp::Absent, RFp::MisplacedWrongLen, RFp::BadThenDecoy, RFp::BadThenSecondFp, RFp::ValueOfPrevious, RFp::BadWithUnknownRequired, RFp::AbsentWithUnknownRequired, RFp::BadWithResidueTrailer, RFp::BadWithLookalikeTrailer] {
                v.push(Event::Deliver { to: Target::Unknown, reply: Reply::plain(RClass::Indication).with_mac(mac).with_fp(f) });
            }
        }
        v
    }
}

pub fn proto() -> Box<dyn Monitor> {
    Box::new(Mon { finals_before: vec![] })
}

pub fn run(ctx: &RunCtx, rep: &mut Report) {
    let thorough = ctx.thorough();
    let apps: Arc<Vec<Vec<L>>> = Arc::new(vec![vec![], vec![L::Software("x".into()), L::Fp]]);
    let mut cfgs = vec![];
    for t in [Transport::Unreliable { rto_ms: 100, gran_ms: 1, rm: 2, rc: 2 }, Transport::Reliable { timeout_ms: 300 }] {
        for m in [Mech::None, Mech::ShortTerm(None), Mech::ShortTerm(Some(true)), Mech::LongTerm] {
            cfgs.push(Cfg { transport: t, mech: m, fingerprint: true, max_tx: 10, cred: 0, method: 1 });
        }
    }
    let depth = if thorough { 8 } else { 6 };
    let results: Vec<(Report, serde_json::Value)> = cfgs
        .par_iter()
        .map(|cfg| {
            let mut r = Report::new();
            let st = bfs(cfg, &apps, &Mon { finals_before: vec![] }, depth, if thorough { 3_000_000 } else { 500_000 }, &mut r);
            (r, json!({"config": cfg.show(), "depth": st.depth_completed, "states": st.states, "transitions": st.transitions}))
        })
        .collect();
    // application collections built by add AND remove: the three trailer attributes added in every order, then one of them
    // removed (and in half of the lists added again), sent as request and as indication from a fresh client of every
    // configuration: the packet still ends in one valid FINGERPRINT
    let results = {
        let mut results = results;
        let trailers = [L::Mi, L::Sha, L::Fp];
        let types = [codec::T_MI, codec::T_SHA, codec::T_FP];
        let orders: [[usize; 3]; 6] = [[0, 1, 2], [0, 2, 1], [1, 0, 2], [1, 2, 0], [2, 0, 1], [2, 1, 0]];
        let mut lists: Vec<Vec<L>> = vec![];
        for o in orders {
            for rm in 0..3 {
                for readd in [false, true] {
                    let mut l = vec![L::Software("app".into())];
                    l.extend(o.iter().map(|i| trailers[*i].clone()));
                    l.push(super::world::remove_op(types[rm]));
                    if readd {
                        l.push(trailers[rm].clone());
                    }
                    lists.push(l);
                }
            }
        }
        let lists = Arc::new(lists);
        let mut r = Report::new();
        for cfg in &cfgs {
            for app in 0..lists.len() {
                for indication in [false, true] {
                    if indication && matches!(cfg.mech, Mech::LongTerm) {
                        continue;
                    }
                    let proto = Mon { finals_before: vec![] };
                    let mut run = explore::start(cfg, &lists, &proto);
                    let ev = if indication { Event::Indicate { app } } else { Event::Send { app } };
                    let h = vec![ev.clone()];
                    explore::step(&mut run, &ev, Some((&mut r, &h)));
                    r.transitions += 1;
                }
            }
        }
        r.sym("client-add-remove-collections");
        results.push((r, json!({"add_remove_collections": lists.len()})));
        results
    };
    let mut per = vec![];
    let (mut states, mut transitions) = (0u64, 0u64);
    for (r, j) in results {
        states += j["states"].as_u64().unwrap_or(0);
        transitions += j["transitions"].as_u64().unwrap_or(0);
        per.push(j);
        rep.merge(r);
    }
    rep.evaluations += transitions;
    rep.extra.insert(
        "client".into(),
        json!({"engine": "E3 breadth-first exploration of fingerprint-enforcing clients (none / short-term / long-term x both transports)", "depth": depth, "states": states, "transitions": transitions, "per_config": per,
               "alphabet": "Send, Indicate, Timer, AdvanceTo, Deliver(each awaiting request x accepted reply kinds of the mechanism x FINGERPRINT {valid, one bit wrong, absent, misplaced before the last attribute with the CRC over the unadjusted length, wrong and followed by a decoy attribute whose value reads like a matching FINGERPRINT TLV, wrong and followed by a second FINGERPRINT that is right for its own position, carrying the FINGERPRINT value of the buffer delivered just before, wrong / absent on a message that also carries an unknown comprehension-required attribute}), Deliver(a response with a right FINGERPRINT and a wrong MAC, short-term on unreliable transport), Deliver(indication x the 7 FINGERPRINT kinds)"}),
    );
}
