//! C08 Long-term credentials: challenge, retry and authenticated delivery.

use super::explore::{self, bfs, Event, Monitor, Step, Target, TimeDetail};
use super::server::{accept_for, challenge_of, lt_key_for, Chal, Challenge, NonceKind, PasKind, RClass, RMac, Reply, Verdict};
use super::world::{CallRes, Cfg, ErrK, Mech, OEv, Transport, Who, World};
use crate::refs::codec::{self, ref_parse, L};
use crate::util::{Finish, Report, RunCtx, Shared};
use rayon::prelude::*;
use serde_json::json;
use std::sync::Arc;

#[derive(Clone, Copy, PartialEq, Eq, Debug)]
enum Phase {
    First,
    RetryAfter401,
    RetryAfter438,
    Subsequent,
}

#[derive(Clone)]
pub struct Mon {
    pub max_sends: usize,
    challenge: Option<Challenge>,
    chal_kind: Option<Chal>,
    phase: Phase,
    gen: u8,
    finals_before: Vec<usize>,
    /// per request: was it acceptable to the reference server (None = sent before any challenge)
    acceptable: Vec<Option<bool>>,
    /// per request: the challenge in force when it was sent
    sent_under: Vec<Option<Challenge>>,
}

impl Mon {
    pub fn new(max_sends: usize) -> Mon {
        Mon { max_sends, challenge: None, chal_kind: None, phase: Phase::First, gen: 0, finals_before: vec![], acceptable: vec![], sent_under: vec![] }
    }
}

const CRED_TYPES: [(u16, &str); 8] = [
    (codec::T_USERNAME, "USERNAME"),
    (codec::T_USERHASH, "USERHASH"),
    (codec::T_MI, "MESSAGE-INTEGRITY"),
    (codec::T_SHA, "MESSAGE-INTEGRITY-SHA256"),
    (codec::T_REALM, "REALM"),
    (codec::T_NONCE, "NONCE"),
    (codec::T_PASSWORD_ALGORITHMS, "PASSWORD-ALGORITHMS"),
    (codec::T_PASSWORD_ALGORITHM, "PASSWORD-ALGORITHM"),
];

fn contains(hay: &[u8], needle: &[u8]) -> bool {
    hay.windows(needle.len()).any(|w| w == needle)
}

fn phase_name(p: Phase) -> &'static str {
    match p {
        Phase::First => "first-request",
        Phase::RetryAfter401 => "retry-after-401",
        Phase::RetryAfter438 => "retry-after-438",
        Phase::Subsequent => "subsequent-request",
    }
}

/// candidate keys a reply may legitimately be authenticated with under challenge `ch`
fn candidate_keys(ch: &Challenge, cr: &super::world::Creds) -> Vec<Vec<u8>> {
    match &ch.offered {
        None => vec![lt_key_for(cr.user, 1, &ch.realm, cr.pass_key)],
        Some(list) => list.iter().filter(|(a, _)| *a == 1 || *a == 2).map(|(a, _)| lt_key_for(cr.user, *a, &ch.realm, cr.pass_key)).collect(),
    }
}

/// does the delivered buffer carry an integrity attribute of the kind the challenge calls for that verifies
/// under one of the candidate keys?
fn reply_verifies(bytes: &[u8], ch: &Challenge, cr: &super::world::Creds) -> bool {
    let Ok(p) = ref_parse(bytes) else { return false };
    let keys = candidate_keys(ch, cr);
    let want_sha = ch.offered.is_some();
    p.tlvs.iter().any(|t| {
        if want_sha {
            t.ty == codec::T_SHA && keys.iter().any(|k| codec::sha_ok(bytes, t, k))
        } else {
            t.ty == codec::T_MI && keys.iter().any(|k| codec::mi_ok(bytes, t, k))
        }
    })
}

impl Monitor for Mon {
    fn fresh(&self) -> Box<dyn Monitor> {
        Box::new(Mon::new(self.max_sends))
    }
    fn on_step(&mut self, w: &World, st: &Step, rep: Option<(&mut Report, &[Event])>) {
        let finals_before = std::mem::replace(&mut self.finals_before, w.reqs.iter().map(|r| r.finals.len()).collect());
        let challenge_before = self.challenge.clone();
        let phase_before = self.phase;
        while self.acceptable.len() < w.reqs.len() {
            self.acceptable.push(None);
            self.sent_under.push(challenge_before.clone());
        }
        // --- bookkeeping that must also happen while replaying -----------------------------------------------
        let mut send_verdict: Option<(usize, Verdict)> = None;
        if let (Event::Send { .. }, CallRes::SendOk(i)) = (st.ev, &st.obs.res) {
            if let Some(ch) = &challenge_before {
                let consistent = ch.offered.is_some() == ch.pa_bit;
                let v = accept_for(&w.reqs[*i].first, ch, &w.cfg.creds());
                self.acceptable[*i] = if consistent { Some(v == Verdict::Accept) } else { None };
                send_verdict = Some((*i, v));
            }
        }
        let retry_now: Vec<usize> = st.obs.events.iter().filter_map(|e| if let OEv::Retry(Who::Req(i)) = e { Some(*i) } else { None }).collect();
        let delivered_now: Vec<(usize, u8)> = st.obs.events.iter().filter_map(|e| if let OEv::Recv { who: Who::Req(i), class, .. } = e { Some((*i, *class)) } else { None }).collect();
        if let Event::Deliver { reply, .. } = st.ev {
            if !retry_now.is_empty() {
                match (reply.class, reply.chal) {
                    (RClass::Error(401), Some(c)) => {
                        self.challenge = challenge_of(&c);
                        self.chal_kind = Some(c);
                        self.phase = Phase::RetryAfter401;
                        self.gen = self.gen.wrapping_add(1);
                    }
                    (RClass::Error(438), Some(c)) => {
                        if let (Some(ch), Some(n)) = (self.challenge.as_mut(), super::server::nonce_string(c.nonce)) {
                            ch.nonce = n;
                        }
                        self.phase = Phase::RetryAfter438;
                        self.gen = self.gen.wrapping_add(1);
                    }
                    _ => {}
                }
            } else if !delivered_now.is_empty() && self.challenge.is_some() {
                self.phase = Phase::Subsequent;
            }
        }
        let Some((rep, hist)) = rep else { return };
        let replay = || explore::history_replay(w, hist, st.obs);
        if let CallRes::Panic(p) = &st.obs.res {
            rep.violate(format!("client-panics/{}", crate::util::panic_site(p)), p.clone(), replay());
            return;
        }
        // --- every emitted packet: the password never appears ---------------------------------------------------
        for e in &st.obs.events {
            if let OEv::Out { bytes, .. } = e {
                if contains(bytes, w.cfg.creds().pass.as_bytes()) || contains(bytes, w.cfg.creds().pass_key.as_bytes()) {
                    rep.violate("password-on-the-wire", "", replay());
                }
            }
        }
        // --- requests ------------------------------------------------------------------------------------------------
        match (st.ev, &st.obs.res) {
            (Event::Send { .. }, CallRes::SendOk(i)) => {
                let pkt = &w.reqs[*i].first;
                let parsed = ref_parse(pkt);
                match (&challenge_before, parsed) {
                    (_, Err(e)) => rep.violate("request-unparseable", e, replay()),
                    (None, Ok(p)) => {
                        // before any challenge: none of the eight credential attributes
                        let present: Vec<&str> = CRED_TYPES.iter().filter(|(t, _)| p.tlvs.iter().any(|x| x.ty == *t)).map(|(_, n)| *n).collect();
                        if !present.is_empty() {
                            rep.violate(format!("first-request-carries-credential-attributes/{}", present.join("+")), "", replay());
                        } else {
                            rep.sym("first-request-clean");
                        }
                    }
                    (Some(ch), Ok(p)) => {
                        let (_, verdict) = send_verdict.clone().unwrap();
                        let consistent = ch.offered.is_some() == ch.pa_bit;
                        let has = |t: u16| p.tlvs.iter().any(|x| x.ty == t);
                        if consistent {
                            match &verdict {
                                Verdict::Accept => {
                                    rep.sym("request-accepted-by-reference-server");
                                }
                                Verdict::Reject(code, why) => {
                                    // F7 shape: the MAC only fails because the request does not name the algorithm it was keyed with
                                    let sub = if *why == "mac" && ch.offered.is_some() && !has(codec::T_PASSWORD_ALGORITHM) && !has(codec::T_PASSWORD_ALGORITHMS) {
                                        "no-password-algorithm"
                                    } else {
                                        why
                                    };
                                    rep.violate(
                                        format!("request-not-acceptable-to-rfc-server/{}/{}", phase_name(phase_before), sub),
                                        format!("reference server answers {} ({}) under challenge {:?}", code, why, ch),
                                        replay(),
                                    );
                                }
                            }
                            // integrity kind named by the statement: SHA-256 if algorithms were offered, otherwise SHA-1
                            if verdict == Verdict::Accept {
                                let want_sha = ch.offered.is_some();
                                if (want_sha && !has(codec::T_SHA)) || (!want_sha && !has(codec::T_MI)) {
                                    rep.violate(format!("integrity-kind/{}", phase_name(phase_before)), format!("offered {:?}", ch.offered), replay());
                                }
                            }
                        }
                        // no credential attribute twice (application-supplied ones are replaced)
                        for (t, n) in CRED_TYPES {
                            if p.tlvs.iter().filter(|x| x.ty == t).count() > 1 {
                                rep.violate(format!("credential-attribute-duplicated/{}", n), "", replay());
                            }
                        }
                    }
                }
            }
            (Event::Indicate { .. }, res) => {
                if !matches!(res, CallRes::IndErr(_)) || st.obs.events.iter().any(|e| matches!(e, OEv::Out { .. })) {
                    rep.violate("indication-sent-with-long-term-credentials", format!("{:?}", res), replay());
                } else {
                    rep.sym("indication-refused");
                }
            }
            _ => {}
        }
        // --- deliveries -----------------------------------------------------------------------------------------------
        if let (Event::Deliver { to, reply }, Some(bytes)) = (st.ev, st.delivered) {
            let awaiting_target = match to {
                Target::Req(i) => finals_before.get(*i).copied().unwrap_or(1) == 0,
                Target::Unknown | Target::Near(..) => false,
            };
            let any_recv = st.obs.events.iter().any(|e| matches!(e, OEv::Recv { .. }));
            match reply.class {
                RClass::Indication => {
                    if any_recv {
                        rep.violate("indication-delivered-with-long-term-credentials", "", replay());
                    } else {
                        rep.sym("indication-not-delivered");
                    }
                }
                RClass::Error(401) if awaiting_target => {
                    let Target::Req(i) = to else { return };
                    let complete = reply.chal.map(|c| c.realm && c.nonce != NonceKind::Absent && c.pas != PasKind::Unsupported).unwrap_or(false);
                    let consistent = reply.chal.map(|c| (c.pas != PasKind::Absent) == matches!(c.nonce, NonceKind::Cookie(true, _, _) | NonceKind::CookieX(true, _, _))).unwrap_or(false);
                    if any_recv {
                        rep.violate("challenge-delivered-as-a-response", "401", replay());
                    } else if complete && consistent && reply.mac == RMac::None {
                        if !retry_now.contains(i) {
                            rep.violate("no-retry-after-401", format!("{:?} {:?}", st.obs.res, super::world::show_events(&st.obs.events)), replay());
                        } else {
                            rep.sym("retry-after-401");
                        }
                    }
                }
                RClass::Error(438) if awaiting_target => {
                    let Target::Req(i) = to else { return };
                    if any_recv {
                        rep.violate("challenge-delivered-as-a-response", "438", replay());
                    } else if challenge_before.is_some()
                        && reply.chal.map(|c| c.nonce != NonceKind::Absent && (c.pas != PasKind::Absent) == matches!(c.nonce, NonceKind::Cookie(true, _, _) | NonceKind::CookieX(true, _, _))).unwrap_or(false)
                        && reply.mac == RMac::None
                    {
                        if !retry_now.contains(i) {
                            rep.violate("no-retry-after-438", format!("{:?} {:?}", st.obs.res, super::world::show_events(&st.obs.events)), replay());
                        } else {
                            rep.sym("retry-after-438");
                        }
                    }
                }
                RClass::Success | RClass::Error(_) if awaiting_target => {
                    let Target::Req(i) = to else { return };
                    let verifies = challenge_before.as_ref().map(|ch| reply_verifies(bytes, ch, &w.cfg.creds())).unwrap_or(false);
                    let delivered = delivered_now.iter().any(|d| d.0 == *i);
                    let cls = if reply.class == RClass::Success { "success" } else { "error" };
                    if delivered && !verifies {
                        rep.violate(
                            format!("unauthenticated-{}-response-delivered/{:?}/{}", cls, reply.mac, phase_name(phase_before)),
                            format!("challenge {:?}", challenge_before),
                            replay(),
                        );
                    } else if !delivered && verifies && self.acceptable[*i] == Some(true) && self.sent_under[*i] == challenge_before {
                        rep.violate(
                            format!("authenticated-{}-response-not-delivered/{:?}/{}", cls, reply.mac, phase_name(phase_before)),
                            format!("{:?} {:?}", st.obs.res, super::world::show_events(&st.obs.events)),
                            replay(),
                        );
                    } else if delivered {
                        rep.sym("authenticated-response-delivered");
                    } else {
                        rep.sym("unauthenticated-response-rejected");
                    }
                }
                _ => {}
            }
        }
        let _ = ErrK::Ignored;
    }
    fn key(&self, w: &World) -> String {
        let live: Vec<String> = w.awaiting().iter().map(|i| format!("{:?}", self.acceptable[*i])).collect();
        format!("{:?}|{:?}|{:?}|{}|{}", self.challenge, self.phase, live, w.reqs.len(), w.inds.len())
    }
    fn enabled(&self, w: &World) -> Vec<Event> {
        let mut v = vec![];
        if w.reqs.len() < self.max_sends && w.awaiting().len() < 2 {
            v.push(Event::Send { app: 0 });
            if w.reqs.len() < 2 || self.phase != Phase::First {
                v.push(Event::Send { app: 1 });
            }
        }
        if w.reqs.len() == 1 {
            v.push(Event::Indicate { app: 0 });
        }
        if !w.awaiting().is_empty() && w.reqs.len() <= 2 {
            v.push(Event::Timer);
            for t in explore::time_reps(w, TimeDetail::Coarse).into_iter().rev().take(1) {
                if !w.just_advanced {
                    v.push(Event::AdvanceTo(t));
                }
            }
        }
        let g = self.gen % 3;
        let ch = |realm: bool, nonce: NonceKind, pas: PasKind| Chal { realm, nonce, pas, realm_v: 0, order: 0 };
        let mut replies: Vec<Reply> = vec![
            Reply::plain(RClass::Error(401)).with_chal(ch(true, NonceKind::Plain(g), PasKind::Absent)),
            Reply::plain(RClass::Error(401)).with_chal(ch(true, NonceKind::Cookie(true, false, g), PasKind::Md5Sha256)),
            Reply::plain(RClass::Error(401)).with_chal(ch(true, NonceKind::Cookie(true, false, g), PasKind::Md5)),
            Reply::plain(RClass::Error(401)).with_chal(ch(true, NonceKind::Cookie(true, true, g), PasKind::Sha256Md5)),
            Reply::plain(RClass::Error(401)).with_chal(ch(true, NonceKind::Cookie(false, true, g), PasKind::Absent)),
            Reply::plain(RClass::Error(401)).with_chal(ch(true, NonceKind::Cookie(true, false, g), PasKind::Unsupported)),
            // lists mixing algorithms the client knows with ones it does not (the request echoes the list as it was sent)
            Reply::plain(RClass::Error(401)).with_chal(ch(true, NonceKind::Cookie(true, false, g), PasKind::UnknownSha256)),
            Reply::plain(RClass::Error(401)).with_chal(ch(true, NonceKind::Cookie(true, true, g), PasKind::Md5UnknownWithParams)),
            Reply::plain(RClass::Error(401)).with_chal(ch(false, NonceKind::Plain(g), PasKind::Absent)),
            Reply::plain(RClass::Error(401)).with_chal(ch(true, NonceKind::Absent, PasKind::Absent)),
            Reply::plain(RClass::Error(401)).with_chal(ch(true, NonceKind::Cookie(true, false, g), PasKind::Absent)),
            // a challenge for the same realm spelled in another case, and for another realm (keys and USERHASH are
            // case-sensitive in the realm: nothing derived for an earlier realm may be reused)
            Reply::plain(RClass::Error(401)).with_chal(Chal { realm: true, nonce: NonceKind::Cookie(true, true, g), pas: PasKind::Md5Sha256, realm_v: 1, order: 0 }),
            Reply::plain(RClass::Error(401)).with_chal(Chal { realm: true, nonce: NonceKind::Plain(g), pas: PasKind::Absent, realm_v: 2, order: 0 }),
            // cookie nonces that also set feature bits nobody has assigned yet
            Reply::plain(RClass::Error(401)).with_chal(Chal { realm: true, nonce: NonceKind::CookieX(true, true, g), pas: PasKind::Md5Sha256, realm_v: 0, order: 0 }),
            Reply::plain(RClass::Error(401)).with_chal(Chal { realm: true, nonce: NonceKind::CookieX(false, true, g), pas: PasKind::Absent, realm_v: 0, order: 0 }),
            // the same challenge attributes in the opposite order (PASSWORD-ALGORITHMS, NONCE, REALM)
            Reply::plain(RClass::Error(401)).with_chal(Chal { realm: true, nonce: NonceKind::Cookie(true, false, g), pas: PasKind::Md5Sha256, realm_v: 0, order: 1 }),
            Reply::plain(RClass::Error(401)).with_chal(Chal { realm: true, nonce: NonceKind::Cookie(true, true, g), pas: PasKind::Sha256Md5, realm_v: 0, order: 1 }),
            Reply::plain(RClass::Success),
            Reply::plain(RClass::Success).with_mac(RMac::Mi),
            Reply::plain(RClass::Success).with_mac(RMac::Sha),
            Reply::plain(RClass::Success).with_mac(RMac::MiOtherPass),
            Reply::plain(RClass::Success).with_mac(RMac::ShaOtherPass),
            Reply::plain(RClass::Error(400)),
            Reply::plain(RClass::Error(500)).with_mac(RMac::Mi),
            Reply::plain(RClass::Error(420)).with_mac(RMac::Sha),
            Reply::plain(RClass::Indication).with_mac(RMac::Mi),
        ];
        // 438 with a new nonce carrying the same cookie bits as the current challenge
        let nk = match self.chal_kind.map(|c| c.nonce) {
            Some(NonceKind::Cookie(p, a, _)) => NonceKind::Cookie(p, a, g + 10),
            Some(NonceKind::CookieX(p, a, _)) => NonceKind::CookieX(p, a, g + 10),
            _ => NonceKind::Plain(g + 10),
        };
        // (an RFC server repeats PASSWORD-ALGORITHMS whenever its nonce sets the password-algorithms bit)
        let pk = match (self.chal_kind, nk) {
            (Some(c), NonceKind::Cookie(true, _, _)) => c.pas,
            _ => PasKind::Absent,
        };
        replies.push(Reply::plain(RClass::Error(438)).with_chal(ch(false, nk, pk)));
        replies.push(Reply::plain(RClass::Error(438)).with_chal(ch(false, nk, pk)).with_mac(RMac::Mi));
        replies.push(Reply::plain(RClass::Error(438)).with_chal(ch(false, nk, pk)).with_mac(RMac::Sha));
        if pk != PasKind::Absent {
            replies.push(Reply::plain(RClass::Error(438)).with_chal(Chal { realm: false, nonce: nk, pas: pk, realm_v: 0, order: 1 }).with_mac(RMac::Sha));
        }
        replies.push(Reply::plain(RClass::Error(438)).with_chal(ch(false, NonceKind::Absent, PasKind::Absent)));
        if pk != PasKind::Absent {
            replies.push(Reply::plain(RClass::Error(438)).with_chal(ch(false, nk, PasKind::Absent)));
        }
        for i in w.awaiting().into_iter().take(1) {
            for r in &replies {
                v.push(Event::Deliver { to: Target::Req(i), reply: *r });
            }
        }
        v
    }
}

pub fn run(ctx: &RunCtx) -> i32 {
    let thorough = ctx.thorough();
    // application attribute lists: empty, and one that pre-populates every credential attribute
    let apps: Arc<Vec<Vec<L>>> = Arc::new(vec![
        vec![],
        vec![
            L::Software("app".into()),
            L::UserName("someone-else".into()),
            L::Realm("other.example".into()),
            L::Nonce("stale".into()),
            L::PasswordAlgorithm(1, vec![]),
            L::PasswordAlgorithms(vec![(1, vec![])]),
            L::UserHash(crate::refs::codec::userhash_ref("user", "realm")),
            L::Mi,
            L::Sha,
        ],
    ]);
    let shared = Shared::new();
    let cfgs = vec![
        Cfg { transport: Transport::Unreliable { rto_ms: 100, gran_ms: 1, rm: 2, rc: 2 }, mech: Mech::LongTerm, fingerprint: false, max_tx: 10, cred: 0, method: 1 },
        Cfg { transport: Transport::Reliable { timeout_ms: 300 }, mech: Mech::LongTerm, fingerprint: false, max_tx: 10, cred: 0, method: 1 },
    ];
    let exchanges = if thorough { 6 } else { 5 };
    // other credential sets, one exchange shorter: a 70-byte user name / 129-byte password, and the RFC 5769 Katakana user
    // name with a password that OpaqueString enforcement rewrites
    let extra = vec![
        Cfg { transport: Transport::Unreliable { rto_ms: 100, gran_ms: 1, rm: 2, rc: 2 }, mech: Mech::LongTerm, fingerprint: false, max_tx: 10, cred: 2, method: 1 },
        Cfg { transport: Transport::Reliable { timeout_ms: 300 }, mech: Mech::LongTerm, fingerprint: false, max_tx: 10, cred: 1, method: 0x003 },
    ];
    // clients with a neighbour: another client object with the SAME user name and ANOTHER password (and the other way
    // round), or another user name and the same password, has completed authenticated exchanges on the same thread before
    // the client under test is built; the client under test is judged by its own configuration alone
    let neighbours = vec![
        Cfg { transport: Transport::Reliable { timeout_ms: 300 }, mech: Mech::LongTerm, fingerprint: false, max_tx: 10, cred: 3, method: 1 },
        Cfg { transport: Transport::Unreliable { rto_ms: 100, gran_ms: 1, rm: 2, rc: 2 }, mech: Mech::LongTerm, fingerprint: false, max_tx: 10, cred: 4, method: 1 },
        Cfg { transport: Transport::Reliable { timeout_ms: 300 }, mech: Mech::LongTerm, fingerprint: false, max_tx: 10, cred: 5, method: 1 },
    ];
    neighbours.par_iter().for_each(|cfg| {
        let mut r = Report::new();
        let ex = if thorough { 4 } else { 2 };
        let st = bfs(cfg, &apps, &Mon::new(ex), 2 * ex + 1, 1_000_000, &mut r);
        r.states = st.states;
        r.transitions = st.transitions;
        r.sym("clients-with-a-neighbour");
        shared.merge(r);
    });
    {
        use std::sync::atomic::Ordering::Relaxed;
        let (ok, failed) = (super::world::NEIGHBOUR_OK.load(Relaxed), super::world::NEIGHBOUR_FAILED.load(Relaxed));
        let mut r = Report::new();
        r.add_extra("neighbour_exchanges_delivered", ok);
        if failed > 0 {
            r.violate(
                "neighbour-client/challenge-or-authenticated-response-not-honoured",
                format!("{} of {} exchanges", failed, ok + failed),
                json!({"scenario": "on one thread, clients with credential sets 0 ('user'/'password'), 3 ('user'/'another password') and 5 ('user2'/'password') each run: send, 401 (realm example.org, plain nonce), retry, success with MESSAGE-INTEGRITY under MD5(user:realm:password); then 401 with cookie nonce (algorithms bit) + PASSWORD-ALGORITHMS [SHA256], retry, success with MESSAGE-INTEGRITY-SHA256 - one after the other, each dropped before the next is built"}),
            );
        }
        if ok == 0 {
            r.violate("harness/no-neighbour-exchange-was-delivered", "", json!({}));
        }
        shared.merge(r);
    }
    extra.par_iter().for_each(|cfg| {
        let mut r = Report::new();
        let st = bfs(cfg, &apps, &Mon::new(exchanges - 1), 2 * (exchanges - 1) + 1, 1_500_000, &mut r);
        r.states = st.states;
        r.transitions = st.transitions;
        r.sym("other-credential-sets");
        shared.merge(r);
    });
    let per: Vec<_> = cfgs
        .par_iter()
        .map(|cfg| {
            let mut r = Report::new();
            let st = bfs(cfg, &apps, &Mon::new(exchanges), 2 * exchanges + 1, if thorough { 6_000_000 } else { 1_500_000 }, &mut r);
            r.states = st.states;
            r.transitions = st.transitions;
            r.sym("bfs-configs");
            shared.merge(r);
            json!({"config": cfg.show(), "depth": st.depth_completed, "states": st.states, "transitions": st.transitions})
        })
        .collect();
    let mut rep = shared.into_inner();
    rep.extra.insert("per_config".into(), json!(per));
    crate::util::finish(
        ctx,
        rep,
        Finish {
            level: "model_checking",
            rule: format!("breadth-first exploration of the real long-term client on both transports, up to {} request/response exchanges (depth {}), over {{Send (empty application list, or one that pre-populates USERNAME / REALM / NONCE / PASSWORD-ALGORITHM(S) / USERHASH / both integrity attributes), Indicate, Timer, AdvanceTo(beyond), Deliver of 31 server behaviours (two 401 challenges whose cookie nonce also sets unassigned feature bits) (two 401 challenges and one 438 also with their attributes in the opposite order): 401 x {{plain nonce; the realm in another letter case with cookie nonce + anonymity; another realm; cookie nonce with password-algorithms bit and [MD5,SHA256] / [MD5] / [SHA256,MD5]+anonymity / unsupported list / [unknown,SHA256] / [MD5,unknown with parameters]+anonymity; anonymity only; missing realm; missing nonce; algorithms bit without the attribute}}, 438 with a new nonce x {{no MAC, MI, SHA256}} and without nonce, success x {{none, MI, SHA256, MI / SHA256 under another password}}, errors 400/420/500 with and without integrity, an authenticated indication}}. Replies are built by the reference codec and keyed from the request's PASSWORD-ALGORITHM; server replies are not restricted to what an RFC server would send next. Monitor: first request free of the eight credential attributes; a complete 401 / a 438 with nonce yields Retry; every later request is judged by the independent RFC 8489 9.2.4 acceptance function against the most recent challenge (username or userhash, realm, nonce, password algorithms echo and choice, MAC under MD5/SHA-256(user:realm:password)) and must use SHA-256 integrity iff algorithms were offered; success and ordinary error responses are delivered only if a MAC of the right kind verifies, and are delivered when the request was acceptable and the MAC verifies; indications refused both ways; the password's bytes occur in no packet", exchanges, 2 * exchanges + 1),
            assumptions: vec!["clients with a neighbour (2 / thorough 4 exchanges): before the client under test is built, another client object on the same thread - same user name and another password, or the other way round, or another user name and the same password - completes two authenticated long-term exchanges (MD5 and SHA-256 keyed) and is dropped; the client under test is judged exactly as if it were alone".into(), "three user / password sets (short ASCII; 70-byte user name with 129-byte password; non-ASCII user name with a password rewritten by OpaqueString enforcement), the latter two one exchange shallower; three realms (one differing from the first only in letter case)".into(), "a 438 carries a nonce with the same cookie bits as the challenge in force (and repeats PASSWORD-ALGORITHMS when the bit is set); a reply to a request sent under an older challenge is only required not to be delivered unauthenticated".into(), "inconsistent challenges (PASSWORD-ALGORITHMS without the cookie bit or vice versa) are explored for robustness but requests are not judged against them".into()],
            required_symbols: vec!["bfs-configs", "first-request-clean", "retry-after-401", "retry-after-438", "request-accepted-by-reference-server", "authenticated-response-delivered", "unauthenticated-response-rejected", "indication-refused", "indication-not-delivered", "clients-with-a-neighbour"],
            min_outcomes: 8,
            exhaustive: true,
            bounds: json!({"exchanges": exchanges}),
        },
    )
}
