//! C12 The outstanding-request limit counts exactly the unfinished requests.

use super::c05::{final_name, reply_menu};
use super::explore::{self, bfs, Event, Monitor, Step, Target, TimeDetail};
use super::world::{CallRes, Cfg, ErrK, Mech, Transport, World};
use crate::refs::codec::L;
use crate::util::{Finish, Report, RunCtx, Shared};
use rayon::prelude::*;
use serde_json::json;
use std::sync::Arc;

#[derive(Clone)]
pub struct Mon {
    pub max_sends: usize,
    /// unfinished requests before the current step
    unfinished_before: usize,
}

impl Mon {
    pub fn new(max_sends: usize) -> Mon {
        Mon { max_sends, unfinished_before: 0 }
    }
}

fn last_final(w: &World) -> String {
    w.reqs
        .iter()
        .filter_map(|r| r.finals.first().map(|f| (f.0, final_name(&f.1))))
        .max_by_key(|x| x.0)
        .map(|x| x.1)
        .unwrap_or_else(|| "none".into())
}

impl Monitor for Mon {
    fn fresh(&self) -> Box<dyn Monitor> {
        Box::new(Mon::new(self.max_sends))
    }
    fn on_step(&mut self, w: &World, st: &Step, rep: Option<(&mut Report, &[Event])>) {
        let before = self.unfinished_before;
        self.unfinished_before = w.awaiting().len();
        let Some((rep, hist)) = rep else { return };
        let replay = || explore::history_replay(w, hist, st.obs);
        let limit = w.cfg.max_tx;
        match (&st.ev, &st.obs.res) {
            (_, CallRes::Panic(p)) => rep.violate(format!("client-panics/{}", crate::util::panic_site(p)), p.clone(), replay()),
            (Event::Send { .. }, CallRes::SendErr(ErrK::MaxOutstanding)) => {
                if before != limit {
                    rep.violate(
                        format!("refused-below-limit/most-recent-final={}", last_final(w)),
                        format!("{} unfinished requests, limit {}", before, limit),
                        replay(),
                    );
                } else if !st.obs.events.is_empty() {
                    rep.violate("refusal-produces-events", format!("{:?}", super::world::show_events(&st.obs.events)), replay());
                } else if st.before != st.after {
                    rep.violate("refusal-changes-state", format!("before {} after {}", st.before, st.after), replay());
                } else {
                    rep.sym("refused-at-limit");
                }
            }
            (Event::Send { .. }, CallRes::SendOk(_)) => {
                if before >= limit {
                    rep.violate(
                        format!("accepted-at-limit/most-recent-final={}", last_final(w)),
                        format!("{} unfinished requests, limit {}", before, limit),
                        replay(),
                    );
                } else {
                    rep.sym("accepted-below-limit");
                }
            }
            (Event::Send { .. }, other) => rep.violate("send-fails-for-another-reason", format!("{:?}", other), replay()),
            // a send that fails because the caller's buffer is too small is not a request: no slot, no trace
            (Event::SendTiny { .. }, CallRes::SendErr(ErrK::MaxOutstanding)) => {
                if before != limit {
                    rep.violate("refused-below-limit/small-buffer-send", format!("{} unfinished, limit {}", before, limit), replay());
                }
            }
            (Event::SendTiny { .. }, CallRes::SendErr(_)) => {
                if !st.obs.events.is_empty() {
                    rep.violate("failed-send-produces-events", format!("{:?}", super::world::show_events(&st.obs.events)), replay());
                } else if w.awaiting().len() != before {
                    rep.violate("failed-send-changes-count", "", replay());
                } else {
                    rep.sym("failed-send-clean");
                }
            }
            (Event::SendTiny { .. }, CallRes::SendOk(_)) => rep.violate("send-succeeds-with-a-16-byte-buffer", "", replay()),
            (Event::Indicate { .. }, CallRes::IndErr(ErrK::MaxOutstanding)) => rep.violate("indication-refused-by-limit", "", replay()),
            (Event::Indicate { .. }, _) => {
                if w.awaiting().len() != before {
                    rep.violate("indication-changes-count", "", replay());
                }
            }
            _ => {}
        }
    }
    fn key(&self, w: &World) -> String {
        format!("{}:{}", w.awaiting().len(), w.reqs.len().min(self.max_sends))
    }
    fn enabled(&self, w: &World) -> Vec<Event> {
        let mut v = vec![];
        if w.reqs.len() < self.max_sends {
            v.push(Event::Send { app: 0 });
        } else if w.awaiting().len() >= w.cfg.max_tx {
            // once the send budget is used, still probe a full table
            v.push(Event::Send { app: 0 });
        }
        if w.reqs.len() < self.max_sends + 1 && !w.just_advanced {
            v.push(Event::SendTiny { app: 0, cap: 16 });
        }
        if w.inds.len() < 1 && !matches!(w.cfg.mech, Mech::LongTerm) {
            v.push(Event::Indicate { app: 0 });
        }
        if !w.awaiting().is_empty() {
            v.push(Event::Timer);
            for t in explore::time_reps(w, TimeDetail::Coarse) {
                if !w.just_advanced {
                    v.push(Event::AdvanceTo(t));
                }
            }
        }
        let menu = reply_menu(&w.cfg);
        for i in w.awaiting().into_iter().take(2) {
            for r in &menu {
                v.push(Event::Deliver { to: Target::Req(i), reply: *r });
            }
        }
        // clients that enforce FINGERPRINT: the acceptable reply without / with a wrong FINGERPRINT is a rejected buffer
        if w.cfg.fingerprint {
            for i in w.awaiting().into_iter().take(2) {
                for f in [super::server::RFp::Absent, super::server::RFp::Bad] {
                    v.push(Event::Deliver { to: Target::Req(i), reply: menu[0].with_fp(f) });
                }
            }
        }
        if !w.reqs.is_empty() {
            v.push(Event::Deliver { to: Target::Unknown, reply: menu[0] });
            v.push(Event::RawBytes(vec![0u8; 7]));
        }
        // non-responses carrying an outstanding id never free its slot
        v.extend(explore::id_tie_events(w));
        v
    }
}

/// Directed family for the default limit: fill to the limit, finish every request via one of two kinds
/// (every split), refill.
fn fill_drain_refill(cfg: &Cfg, apps: &Arc<Vec<Vec<L>>>, rep: &mut Report) -> u64 {
    let limit = cfg.max_tx;
    let menu = reply_menu(cfg);
    // final-outcome kinds: index into the reply menu, or timeout
    #[derive(Clone, Copy, Debug)]
    enum Fin {
        Reply(usize),
        Timeout,
    }
    let mut kinds: Vec<Fin> = (0..menu.len()).map(Fin::Reply).collect();
    kinds.push(Fin::Timeout);
    let mut execs = 0;
    for a in 0..kinds.len() {
        for b in a..kinds.len() {
            for split in 0..=limit {
                if a == b && split != limit {
                    continue;
                }
                execs += 1;
                let proto = Mon::new(3 * limit + 2);
                let mut run = explore::start(cfg, apps, &proto);
                let mut hist: Vec<Event> = vec![];
                let mut go = |run: &mut explore::Run, hist: &mut Vec<Event>, ev: Event, rep: &mut Report| {
                    hist.push(ev.clone());
                    let h = hist.clone();
                    explore::step(run, &ev, Some((rep, &h)))
                };
                for round in 0..2 {
                    // fill, with one probe beyond the limit
                    for _ in 0..=limit {
                        go(&mut run, &mut hist, Event::Send { app: 0 }, rep);
                    }
                    // drain: the first `split` via kind a, the others via kind b
                    let open = run.w.awaiting();
                    let mut timeouts = false;
                    for (n, i) in open.iter().enumerate() {
                        let k = if n < split { kinds[a] } else { kinds[b] };
                        match k {
                            Fin::Reply(m) => {
                                go(&mut run, &mut hist, Event::Deliver { to: Target::Req(*i), reply: menu[m] }, rep);
                            }
                            Fin::Timeout => timeouts = true,
                        }
                    }
                    if timeouts || !run.w.awaiting().is_empty() {
                        // whatever is still open (auth-failing replies on unreliable transport are ignored) expires
                        let mut guard = 0;
                        while !run.w.awaiting().is_empty() && guard < 40 {
                            guard += 1;
                            let t = explore::interesting_points(&run.w).last().copied().unwrap_or(run.w.now) + 1_000_000;
                            go(&mut run, &mut hist, Event::AdvanceTo(t), rep);
                            go(&mut run, &mut hist, Event::Timer, rep);
                        }
                    }
                    if !run.w.awaiting().is_empty() {
                        rep.violate(
                            "requests-never-finish-in-drain",
                            format!("round {} kinds {:?}/{:?}", round, kinds[a], kinds[b]),
                            json!({"config": cfg.show(), "events": explore::show_history(&hist)}),
                        );
                    }
                }
                rep.transitions += hist.len() as u64;
                rep.states += hist.len() as u64;
                if a == 0 && b == kinds.len() - 1 && split == 3 {
                    rep.sample(json!({"config": cfg.show(), "family": "fill-drain-refill", "split": split, "history_len": hist.len()}));
                }
            }
        }
    }
    execs
}

/// Directed family: the table is full; a response arrives whose id is not outstanding but LOOKS like the newest outstanding
/// one (every look-alike kind of `explore::near_id`, success and error class). It is a response to nothing: no event, the
/// call is refused, no slot is freed (the next send is refused); afterwards every own response frees exactly one slot.
fn lookalike_ids(cfg: &Cfg, apps: &Arc<Vec<Vec<L>>>, rep: &mut Report) -> u64 {
    let limit = cfg.max_tx;
    let menu = reply_menu(cfg);
    let ok = menu[0];
    let err = menu.iter().copied().find(|r| matches!(r.class, super::server::RClass::Error(c) if c != 401 && c != 438)).unwrap_or(ok);
    let mut execs = 0;
    for k in 0..explore::NEAR_KINDS {
        for reply in [ok, err] {
            for which in [limit - 1, 0] {
                execs += 1;
                let proto = Mon::new(3 * limit + 4);
                let mut run = explore::start(cfg, apps, &proto);
                let mut hist: Vec<Event> = vec![];
                let mut go = |run: &mut explore::Run, hist: &mut Vec<Event>, ev: Event, rep: &mut Report| {
                    hist.push(ev.clone());
                    let h = hist.clone();
                    explore::step(run, &ev, Some((rep, &h)))
                };
                for _ in 0..limit {
                    go(&mut run, &mut hist, Event::Send { app: 0 }, rep);
                }
                let o = go(&mut run, &mut hist, Event::Deliver { to: Target::Near(which, k), reply }, rep);
                if !matches!(o.res, CallRes::RecvErr(_)) || !o.events.is_empty() {
                    rep.violate(
                        "response-with-a-lookalike-id-is-taken",
                        format!("look-alike kind {} of request T{}: {:?} events {:?}", k, which, o.res, super::world::show_events(&o.events)),
                        json!({"config": cfg.show(), "events": explore::show_history(&hist), "history": hist}),
                    );
                } else {
                    rep.sym("lookalike-id-discarded");
                }
                // the table is still full (the monitor checks the refusal), then every own response frees one slot
                go(&mut run, &mut hist, Event::Send { app: 0 }, rep);
                for i in run.w.awaiting() {
                    go(&mut run, &mut hist, Event::Deliver { to: Target::Req(i), reply: ok }, rep);
                    go(&mut run, &mut hist, Event::Send { app: 0 }, rep);
                    go(&mut run, &mut hist, Event::Send { app: 0 }, rep);
                }
                rep.transitions += hist.len() as u64;
                rep.states += hist.len() as u64;
            }
        }
    }
    execs
}

pub fn run(ctx: &RunCtx) -> i32 {
    let thorough = ctx.thorough();
    let apps: Arc<Vec<Vec<L>>> = Arc::new(vec![vec![]]);
    let shared = Shared::new();
    let mut cfgs = vec![];
    for limit in 0..=4usize {
        for (t, m) in [
            (Transport::Unreliable { rto_ms: 100, gran_ms: 1, rm: 2, rc: 2 }, Mech::None),
            (Transport::Reliable { timeout_ms: 300 }, Mech::ShortTerm(Some(false))),
            (Transport::Unreliable { rto_ms: 100, gran_ms: 1, rm: 2, rc: 2 }, Mech::ShortTerm(None)),
            (Transport::Unreliable { rto_ms: 100, gran_ms: 1, rm: 2, rc: 2 }, Mech::LongTerm),
        ] {
            cfgs.push(Cfg { transport: t, mech: m, fingerprint: false, max_tx: limit, cred: 0, method: 1 });
        }
    }
    // fingerprint-enforcing clients (limits 1 and 2)
    for limit in [1usize, 2] {
        cfgs.push(Cfg { transport: Transport::Unreliable { rto_ms: 100, gran_ms: 1, rm: 2, rc: 2 }, mech: Mech::None, fingerprint: true, max_tx: limit, cred: 0, method: 1 });
        cfgs.push(Cfg { transport: Transport::Reliable { timeout_ms: 300 }, mech: Mech::ShortTerm(Some(false)), fingerprint: true, max_tx: limit, cred: 0, method: 1 });
    }
    let per: Vec<_> = cfgs
        .par_iter()
        .map(|cfg| {
            let mut r = Report::new();
            let depth = (2 * cfg.max_tx + 4).min(if thorough { 11 } else { 9 });
            let st = bfs(cfg, &apps, &Mon::new(cfg.max_tx + 2), depth, if thorough { 2_000_000 } else { 300_000 }, &mut r);
            r.states = st.states;
            r.transitions = st.transitions;
            r.sym("bfs-configs");
            shared.merge(r);
            json!({"config": cfg.show(), "depth": st.depth_completed, "states": st.states, "transitions": st.transitions})
        })
        .collect();
    // default limit 10: directed fill / drain / refill family
    let dcfgs = vec![
        Cfg { transport: Transport::Unreliable { rto_ms: 500, gran_ms: 1, rm: 16, rc: 7 }, mech: Mech::None, fingerprint: false, max_tx: 10, cred: 0, method: 1 },
        Cfg { transport: Transport::Reliable { timeout_ms: 39500 }, mech: Mech::ShortTerm(Some(false)), fingerprint: false, max_tx: 10, cred: 0, method: 1 },
        Cfg { transport: Transport::Unreliable { rto_ms: 500, gran_ms: 1, rm: 16, rc: 7 }, mech: Mech::ShortTerm(None), fingerprint: true, max_tx: 10, cred: 0, method: 1 },
        Cfg { transport: Transport::Unreliable { rto_ms: 500, gran_ms: 1, rm: 16, rc: 7 }, mech: Mech::LongTerm, fingerprint: false, max_tx: 10, cred: 0, method: 1 },
    ];
    dcfgs.par_iter().for_each(|cfg| {
        let mut r = Report::new();
        let n = fill_drain_refill(cfg, &apps, &mut r);
        r.add_extra("fill_drain_refill_executions", n);
        r.sym("fill-drain-refill");
        shared.merge(r);
    });
    // sends that FAIL (Rc = 0: the first timer cannot be armed; the call returns an error) are not requests: however many of
    // them there are, none takes a slot - the error never turns into "maximum outstanding requests", and no event
    {
        let mut r = Report::new();
        for limit in [1usize, 2, 3, 10] {
            let cfg = Cfg { transport: Transport::Unreliable { rto_ms: 100, gran_ms: 1, rm: 2, rc: 0 }, mech: Mech::None, fingerprint: false, max_tx: limit, cred: 0, method: 1 };
            let mut w = World::new(&cfg, apps.clone());
            let before = w.canon();
            for n in 0..limit + 3 {
                r.eval();
                let o = w.send(0);
                let replay = json!({"config": cfg.show(), "scenario": format!("send_request number {} on a client whose RttConfig has rc = 0 (every send fails)", n + 1)});
                match &o.res {
                    CallRes::Panic(p) => r.violate(format!("client-panics/{}", crate::util::panic_site(p)), p.clone(), replay),
                    CallRes::SendErr(ErrK::MaxOutstanding) => r.violate("failed-sends-consume-slots", format!("send {} refused with the maximum-outstanding error although nothing was ever sent (limit {})", n + 1, limit), replay),
                    CallRes::SendErr(_) => {
                        if !o.events.is_empty() {
                            r.violate("failed-send-produces-events", format!("{:?}", super::world::show_events(&o.events)), replay);
                        } else {
                            // (what else such a call may touch - the staleness clock, say - is not C12's question)
                            let _ = &before;
                            r.sym("failing-sends-take-no-slot");
                        }
                    }
                    // (a client that manages to send with rc = 0 is not this job's business)
                    _ => break,
                }
            }
        }
        shared.merge(r);
    }
    // look-alike ids
    let mut lcfgs = vec![];
    for limit in [1usize, 2, 3, 10] {
        for (t, m, f) in [
            (Transport::Unreliable { rto_ms: 500, gran_ms: 1, rm: 16, rc: 7 }, Mech::None, false),
            (Transport::Reliable { timeout_ms: 39500 }, Mech::ShortTerm(Some(false)), true),
            (Transport::Reliable { timeout_ms: 39500 }, Mech::None, true),
        ] {
            lcfgs.push(Cfg { transport: t, mech: m, fingerprint: f, max_tx: limit, cred: 0, method: 1 });
        }
    }
    lcfgs.par_iter().for_each(|cfg| {
        let mut r = Report::new();
        let n = lookalike_ids(cfg, &apps, &mut r);
        r.add_extra("lookalike_id_executions", n);
        shared.merge(r);
    });
    // a limit above 255 (a narrower counter would wrap): fill 300, probe, let all expire in one timer call, refill
    {
        let cfg = Cfg { transport: Transport::Unreliable { rto_ms: 100, gran_ms: 1, rm: 2, rc: 2 }, mech: Mech::None, fingerprint: false, max_tx: 300, cred: 0, method: 1 };
        let mut r = Report::new();
        let proto = Mon::new(1000);
        let mut run = explore::start(&cfg, &apps, &proto);
        let mut hist: Vec<Event> = vec![];
        for round in 0..2 {
            for _ in 0..=300 {
                let ev = Event::Send { app: 0 };
                hist.push(ev.clone());
                let h = hist.clone();
                explore::step(&mut run, &ev, Some((&mut r, &h)));
            }
            let mut guard = 0;
            while !run.w.awaiting().is_empty() && guard < 10 {
                guard += 1;
                let t = explore::interesting_points(&run.w).last().copied().unwrap_or(run.w.now) + 1_000_000;
                for ev in [Event::AdvanceTo(t), Event::Timer] {
                    hist.push(ev.clone());
                    let h = hist.clone();
                    explore::step(&mut run, &ev, Some((&mut r, &h)));
                }
            }
            if !run.w.awaiting().is_empty() {
                r.violate("requests-never-finish-in-drain", format!("limit 300 round {}", round), json!({"config": cfg.show()}));
            }
        }
        r.transitions += hist.len() as u64;
        r.states += hist.len() as u64;
        r.sym("limit-300");
        shared.merge(r);
    }
    let mut rep = shared.into_inner();
    rep.extra.insert("per_config".into(), json!(per));
    crate::util::finish(
        ctx,
        rep,
        Finish {
            level: "model_checking",
            rule: "breadth-first exploration of the real client for limits 0..=4 (depth 2*limit+4, capped at 9 quick / 11 thorough) x 4 transport/mechanism configurations (plus limits 1, 2 on two fingerprint-enforcing configurations, where the acceptable reply without / with a wrong FINGERPRINT is one more rejected buffer) over {Send (also probing a full table), Send with a 16-byte buffer (must fail without taking a slot), Indicate, Timer, AdvanceTo(next point, +1 ms, beyond), Deliver(an indication / a request carrying the id of an awaiting request), Deliver(each of the first two awaiting requests x reply menu incl. auth-failing, 401, 438), Deliver(unknown id), undecodable bytes}; default limit 10: directed fill-to-limit(+1 probe) / drain / refill executions for every pair of final-outcome kinds and every split of the ten requests between them, two rounds; limits 1, 2, 3, 10 with Rc = 0 (every send fails when its first timer is armed): limit + 3 failing sends never turn into the maximum-outstanding error and produce no event; limits 1, 2, 3, 10 x 3 configurations: table full, a success / error response whose id is one of 12 look-alikes of the newest / oldest outstanding id (same value under a fold of the 96 bits into 64 or 32 bits, a prefix, a suffix, byte- and word-order-insensitive digests, byte sums; plus an ordinary two-byte corruption) must be refused without events and free no slot, then every own response frees exactly one; limit 300: fill, probe, expire all in one timer call, refill. Monitor: send_request refused iff independently counted unfinished requests == limit; a refusal yields no event and an identical snapshot".into(),
            assumptions: vec!["a final outcome is what the application observes (response delivered, TransactionFailed, Retry)".into()],
            required_symbols: vec!["Send", "Indicate", "Timer", "Deliver", "refused-at-limit", "accepted-below-limit", "fill-drain-refill", "bfs-configs", "failed-send-clean", "limit-300", "lookalike-id-discarded"],
            min_outcomes: 6,
            exhaustive: true,
            bounds: json!({"limits": [0,1,2,3,4,10]}),
        },
    )
}
