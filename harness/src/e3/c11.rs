//! C11 Timer notifications are accurate and sufficient for every request to finish.

use super::c05::reply_menu;
use super::explore::{self, bfs, Event, Monitor, Step, Target, TimeDetail};
use super::server::{RClass, Reply};
use super::world::{CallRes, Cfg, Mech, OEv, Transport, Who, World, MS};
use crate::refs::codec::L;
use crate::util::{Finish, Report, RunCtx, Shared};
use rayon::prelude::*;
use serde_json::json;
use std::sync::Arc;

#[derive(Clone)]
pub struct Mon {
    pub max_sends: usize,
    pub detail: TimeDetail,
    awaiting_before: Vec<usize>,
}

impl Mon {
    pub fn new(max_sends: usize, detail: TimeDetail) -> Mon {
        Mon { max_sends, detail, awaiting_before: vec![] }
    }
}

impl Monitor for Mon {
    fn fresh(&self) -> Box<dyn Monitor> {
        Box::new(Mon::new(self.max_sends, self.detail))
    }
    fn needs_snapshots(&self) -> bool {
        true
    }
    fn on_step(&mut self, w: &World, st: &Step, rep: Option<(&mut Report, &[Event])>) {
        let awaiting_before = std::mem::replace(&mut self.awaiting_before, w.awaiting());
        let Some((rep, hist)) = rep else { return };
        let replay = || explore::history_replay(w, hist, st.obs);
        if let CallRes::Panic(p) = &st.obs.res {
            rep.violate(format!("client-panics/{}", crate::util::panic_site(p)), p.clone(), replay());
            return;
        }
        let after_send = matches!((&st.ev, &st.obs.res), (Event::Send { .. }, CallRes::SendOk(_)));
        let after_timer = matches!(st.ev, Event::Timer | Event::TimerAt(_));
        let notes: Vec<(&Who, u64)> = st.obs.events.iter().filter_map(|e| if let OEv::Rto { who, ns } = e { Some((who, *ns)) } else { None }).collect();
        if after_send || after_timer {
            let call = if after_send { "send_request" } else { "on_timeout" };
            let awaiting = w.awaiting();
            if awaiting.is_empty() {
                if !notes.is_empty() {
                    rep.violate(format!("notification-though-nothing-is-awaiting/{}", call), format!("{:?}", notes), replay());
                } else {
                    rep.sym("no-notification-when-idle");
                }
            } else if notes.len() != 1 {
                rep.violate(
                    format!("{}-notifications-while-requests-await/{}", if notes.is_empty() { "no" } else { "several" }, call),
                    format!("{} awaiting, notifications {:?}", awaiting.len(), notes),
                    replay(),
                );
            } else {
                let (who, ns) = (notes[0].0, notes[0].1);
                let deadlines: Vec<(usize, u64)> = awaiting.iter().map(|i| (*i, w.reqs[*i].pending_deadline())).collect();
                let min = deadlines.iter().map(|d| d.1).min().unwrap();
                match who {
                    Who::Req(i) if awaiting.contains(i) => {
                        let mine = deadlines.iter().find(|d| d.0 == *i).unwrap().1;
                        if mine != min {
                            rep.violate(
                                format!("notification-names-a-request-that-is-not-the-earliest/{}", call),
                                format!("named T{} with deadline +{} ns, earliest is +{} ns", i, mine as i128 - w.now as i128, min as i128 - w.now as i128),
                                replay(),
                            );
                        } else {
                            let want = mine.saturating_sub(w.now);
                            if ns != want {
                                rep.violate(
                                    format!("notification-duration-wrong/{}/{}", call, if want == 0 { "overdue" } else if ns > want { "too-long" } else { "too-short" }),
                                    format!("T{}: announced {} ns, pending deadline is in {} ns", i, ns, want),
                                    replay(),
                                );
                            } else {
                                rep.sym(if want == 0 { "overdue-zero" } else { "accurate-notification" });
                                if deadlines.iter().filter(|d| d.1 == min).count() > 1 {
                                    rep.sym("tie");
                                }
                            }
                        }
                    }
                    other => rep.violate(
                        format!("notification-names-a-request-that-is-not-awaiting/{}", call),
                        format!("{:?}, awaiting {:?}", other, awaiting),
                        replay(),
                    ),
                }
            }
        }
        // sufficiency: a timer call at or after a request's final deadline finishes it
        if after_timer {
            for i in awaiting_before {
                let d = w.reqs[i].schedule().1;
                if w.now >= d && w.reqs[i].awaiting() {
                    rep.violate("request-survives-a-timer-call-at-or-after-its-deadline", format!("T{} deadline t0+{} ns, call at t0+{} ns", i, d - w.reqs[i].t0, w.now - w.reqs[i].t0), replay());
                }
            }
        }
    }
    fn key(&self, w: &World) -> String {
        let v: Vec<String> = w.awaiting().iter().map(|i| format!("{}:{}", w.reqs[*i].pending_deadline() as i128 - w.now as i128, w.now - w.reqs[*i].t0)).collect();
        format!("{:?}|{}", v, w.reqs.len())
    }
    fn enabled(&self, w: &World) -> Vec<Event> {
        let mut v = vec![];
        if w.reqs.len() < self.max_sends {
            v.push(Event::Send { app: 0 });
        }
        if w.reqs.is_empty() {
            return v;
        }
        if !w.awaiting().is_empty() {
            for t in explore::time_reps(w, self.detail) {
                v.push(Event::TimerAt(t));
            }
            v.push(Event::Timer);
            // a staggered start for the next request
            if w.reqs.len() < self.max_sends && !w.just_advanced {
                v.push(Event::AdvanceTo(w.now + 30 * MS));
                // with a full table: the clock passes the earliest final deadline without a timer call (a late controller),
                // then the application tries to send
                if w.awaiting().len() >= w.cfg.max_tx {
                    let d = w.awaiting().iter().map(|i| w.reqs[*i].schedule().1).min().unwrap();
                    if d + MS > w.now {
                        v.push(Event::AdvanceTo(d + MS));
                    }
                }
            }
        }
        let menu = reply_menu(&w.cfg);
        // clients that enforce FINGERPRINT: the acceptable reply without / with a wrong FINGERPRINT is refused and changes
        // nothing about the timers
        if w.cfg.fingerprint {
            for i in w.awaiting().into_iter().take(2) {
                for f in [super::server::RFp::Absent, super::server::RFp::Bad] {
                    v.push(Event::Deliver { to: Target::Req(i), reply: menu[0].with_fp(f) });
                }
            }
        }
        for i in w.awaiting().into_iter().take(2) {
            v.push(Event::Deliver { to: Target::Req(i), reply: menu[0] });
            if let Some(bad) = menu.get(2) {
                v.push(Event::Deliver { to: Target::Req(i), reply: *bad });
            }
        }
        if w.inds.is_empty() && !w.awaiting().is_empty() {
            v.push(Event::Deliver { to: Target::Unknown, reply: Reply::plain(RClass::Indication) });
            v.push(Event::Deliver { to: Target::Unknown, reply: menu[0] });
        }
        // non-responses carrying an outstanding id; a send that is refused for lack of buffer space (no request comes
        // into being, so no timer may either)
        v.extend(explore::id_tie_events(w));
        if w.reqs.len() < self.max_sends && !w.just_advanced {
            v.push(Event::SendTiny { app: 0, cap: 16 });
        }
        v
    }
    fn on_end(&mut self, w: &World, stranded: bool, rep: Option<(&mut Report, &[Event])>) {
        let Some((rep, hist)) = rep else { return };
        if stranded {
            rep.violate(
                "stranded-request-under-the-faithful-controller",
                format!("awaiting {:?}", w.awaiting()),
                json!({"config": w.cfg.show(), "events": explore::show_history(hist)}),
            );
        } else {
            rep.sym("controller-run-terminated");
        }
    }
}

pub fn run(ctx: &RunCtx) -> i32 {
    let thorough = ctx.thorough();
    let apps: Arc<Vec<Vec<L>>> = Arc::new(vec![vec![]]);
    let shared = Shared::new();
    let mut jobs: Vec<(Cfg, usize, usize, TimeDetail)> = vec![];
    for (t, m) in [
        (Transport::Unreliable { rto_ms: 100, gran_ms: 1, rm: 2, rc: 3 }, Mech::None),
        (Transport::Unreliable { rto_ms: 100, gran_ms: 1, rm: 16, rc: 2 }, Mech::ShortTerm(Some(false))),
        (Transport::Unreliable { rto_ms: 37, gran_ms: 1, rm: 3, rc: 6 }, Mech::None),
        (Transport::Reliable { timeout_ms: 300 }, Mech::None),
        (Transport::Reliable { timeout_ms: 300 }, Mech::ShortTerm(None)),
    ] {
        let cfg = Cfg { transport: t, mech: m, fingerprint: false, max_tx: 10, cred: 0, method: 1 };
        jobs.push((cfg.clone(), 2, if thorough { 11 } else { 9 }, if thorough { TimeDetail::Fine } else { TimeDetail::Medium }));
        jobs.push((cfg.clone(), 3, if thorough { 10 } else { 8 }, if thorough { TimeDetail::Medium } else { TimeDetail::Coarse }));
        jobs.push((cfg, 4, if thorough { 10 } else { 8 }, TimeDetail::Coarse));
    }
    // fingerprint-enforcing clients
    for (t, m) in [(Transport::Unreliable { rto_ms: 100, gran_ms: 1, rm: 2, rc: 2 }, Mech::None), (Transport::Reliable { timeout_ms: 300 }, Mech::ShortTerm(Some(false)))] {
        jobs.push((Cfg { transport: t, mech: m, fingerprint: true, max_tx: 10, cred: 0, method: 1 }, 2, if thorough { 10 } else { 8 }, TimeDetail::Coarse));
    }
    // small tables (limit 1 and 2): sends into a full table, also while a deadline is already overdue
    for (t, lim, n) in [
        (Transport::Reliable { timeout_ms: 300 }, 1usize, 3usize),
        (Transport::Unreliable { rto_ms: 100, gran_ms: 1, rm: 2, rc: 1 }, 1, 3),
        (Transport::Unreliable { rto_ms: 100, gran_ms: 1, rm: 2, rc: 2 }, 2, 4),
    ] {
        jobs.push((Cfg { transport: t, mech: Mech::None, fingerprint: false, max_tx: lim, cred: 0, method: 1 }, n, if thorough { 10 } else { 8 }, TimeDetail::Coarse));
    }
    // wide: five requests, and deadlines far apart (RTO 3 s: the last deadline is minutes away)
    for (t, n, depth) in [
        (Transport::Unreliable { rto_ms: 100, gran_ms: 1, rm: 2, rc: 2 }, 5usize, if thorough { 10 } else { 9 }),
        (Transport::Unreliable { rto_ms: 3000, gran_ms: 1, rm: 16, rc: 4 }, 4, if thorough { 10 } else { 8 }),
        (Transport::Unreliable { rto_ms: 70_000, gran_ms: 1, rm: 2, rc: 2 }, 3, 8),
    ] {
        jobs.push((Cfg { transport: t, mech: Mech::None, fingerprint: false, max_tx: 10, cred: 0, method: 1 }, n, depth, TimeDetail::Coarse));
    }
    let per: Vec<_> = jobs
        .par_iter()
        .map(|(cfg, n, depth, detail)| {
            let mut r = Report::new();
            let st = bfs(cfg, &apps, &Mon::new(*n, *detail), *depth, if thorough { 2_000_000 } else { 300_000 }, &mut r);
            r.states = st.states;
            r.transitions = st.transitions;
            r.sym("bfs-configs");
            shared.merge(r);
            json!({"config": cfg.show(), "requests": n, "depth": st.depth_completed, "states": st.states, "transitions": st.transitions})
        })
        .collect();
    // the faithful controller (deviation-bounded: timer lateness 0 / -1 ms / +1 ms / half a slot / beyond all deadlines)
    let ccfgs = vec![
        Cfg { transport: Transport::Unreliable { rto_ms: 500, gran_ms: 1, rm: 16, rc: 7 }, mech: Mech::None, fingerprint: false, max_tx: 10, cred: 0, method: 1 },
        Cfg { transport: Transport::Unreliable { rto_ms: 100, gran_ms: 1, rm: 2, rc: 3 }, mech: Mech::ShortTerm(Some(false)), fingerprint: false, max_tx: 10, cred: 0, method: 1 },
        Cfg { transport: Transport::Reliable { timeout_ms: 39500 }, mech: Mech::None, fingerprint: false, max_tx: 10, cred: 0, method: 1 },
    ];
    ccfgs.par_iter().for_each(|cfg| {
        let mut r = Report::new();
        let n = super::devrun::explore(cfg, &apps, &Mon::new(3, TimeDetail::Coarse), if thorough { 4 } else { 3 }, &mut r);
        r.add_extra("controller_executions", n);
        r.sym("controller-runs");
        shared.merge(r);
    });
    let mut rep = shared.into_inner();
    rep.extra.insert("per_config".into(), json!(per));
    crate::util::finish(
        ctx,
        rep,
        Finish {
            level: "model_checking",
            rule: format!("free timer calls: breadth-first exploration to depth {} with 2, 3, 4 and 5 requests started at different instants (RTO from 37 ms to 70 s), timer calls at region representatives (incl. overdue ones), acceptable and auth-failing replies, indications and replies for unknown ids, indications / requests carrying the id of an awaiting request, sends refused for lack of buffer space, two fingerprint-enforcing configurations (the acceptable reply without / with a wrong FINGERPRINT is refused), tables of 1 and 2 slots with sends into the full table while a final deadline is already overdue (late controller); faithful controller: every run-to-completion with <= {} deviations where the controller keeps one armed timer (replaced by each newer notification, kept across received buffers) and fires it on time / 1 ms early / 1 ms late / half a slot late / beyond all deadlines, with lost, duplicated, late and rejected replies and extra requests. Monitor: after send_request / on_timeout exactly one notification iff a request awaits; it names an awaiting request with the minimal pending deadline (least schedule point or final deadline after its last handling, integer ns) and announces max(0, deadline - now); every request awaiting at a timer call at or after its final deadline is final after it; controller runs end with nothing awaiting", if thorough { 11 } else { 9 }, if thorough { 4 } else { 3 }),
            assumptions: vec!["pending deadlines follow C06's schedule arithmetic with the per-transaction RTO read through H1".into()],
            required_symbols: vec!["bfs-configs", "accurate-notification", "overdue-zero", "no-notification-when-idle", "controller-run-terminated", "controller-runs", "tie"],
            min_outcomes: 6,
            exhaustive: true,
            bounds: json!({"jobs": jobs.len()}),
        },
    )
}
