//! C07 Short-term credentials: only authenticated messages are delivered.

use super::explore::{self, bfs, Event, Monitor, Step, Target, TimeDetail};
use super::server::{RClass, RMac, Reply};
use super::world::{CallRes, Cfg, FinalKind, Mech, OEv, Reason, Transport, Who, World};
use crate::refs::codec::{self, ref_parse, L};
use crate::util::{Finish, Report, RunCtx, Shared};
use rayon::prelude::*;
use serde_json::json;
use std::sync::Arc;

#[derive(Clone, Copy, PartialEq, Eq, Debug)]
enum Alg {
    Mi,
    Sha,
}

#[derive(Clone)]
pub struct Mon {
    pub max_sends: usize,
    /// narrow alphabet (many requests in flight): Send, Timer, AdvanceTo, and per awaiting request one acceptable and
    /// one wrongly keyed reply
    pub narrow: bool,
    /// number of application attribute lists offered to Send / Indicate (list 0 is empty; the others pre-populate
    /// USERNAME and integrity attributes keyed by the application)
    pub app_lists: usize,
    agreed: Option<Alg>,
    /// per request: a response with wrong / absent integrity was received (unreliable transport)
    violated: Vec<bool>,
    /// per request: a response was rejected for a reason where the statement leaves the failure reason open
    open_reason: Vec<bool>,
    finals_before: Vec<usize>,
    last_delivery: Option<(Target, Reply)>,
}

impl Mon {
    pub fn new(max_sends: usize, cfg: &Cfg) -> Mon {
        let agreed = match cfg.mech {
            Mech::ShortTerm(Some(true)) => Some(Alg::Sha),
            Mech::ShortTerm(Some(false)) => Some(Alg::Mi),
            _ => None,
        };
        Mon { max_sends, narrow: false, app_lists: 1, agreed, violated: vec![], open_reason: vec![], finals_before: vec![], last_delivery: None }
    }
    pub fn narrow(max_sends: usize, cfg: &Cfg) -> Mon {
        let mut m = Mon::new(max_sends, cfg);
        m.narrow = true;
        m
    }
}

pub fn mac_menu() -> Vec<RMac> {
    vec![RMac::Mi, RMac::Sha, RMac::Both, RMac::None, RMac::BadMi, RMac::BadSha, RMac::MiOtherPass, RMac::ShaOtherPass, RMac::FoldMi, RMac::FoldSha]
}

fn mac_name(m: RMac) -> &'static str {
    match m {
        RMac::Mi => "valid-MI",
        RMac::Sha => "valid-SHA256",
        RMac::Both => "both",
        RMac::None => "none",
        RMac::BadMi => "corrupted-MI",
        RMac::BadSha => "corrupted-SHA256",
        RMac::MiOtherPass => "MI-under-another-password",
        RMac::ShaOtherPass => "SHA256-under-another-password",
        RMac::FoldMi => "MI-wrong-in-two-cancelling-bytes",
        RMac::FoldSha => "SHA256-inverted",
    }
}

/// outgoing packet: USERNAME + integrity verifying under the password
fn check_packet(bytes: &[u8], agreed: Option<Alg>, cr: &super::world::Creds) -> Result<(), (String, String)> {
    let p = ref_parse(bytes).map_err(|e| ("packet-unparseable".to_string(), e))?;
    let user = p.tlvs.iter().find(|t| t.ty == codec::T_USERNAME);
    match user {
        Some(u) if u.value == cr.user.as_bytes() => {}
        Some(u) => return Err(("wrong-username".into(), format!("{:?}", String::from_utf8_lossy(&u.value)))),
        None => return Err(("no-username".into(), "".into())),
    }
    let mis: Vec<_> = p.tlvs.iter().filter(|t| t.ty == codec::T_MI).collect();
    let shas: Vec<_> = p.tlvs.iter().filter(|t| t.ty == codec::T_SHA).collect();
    if mis.is_empty() && shas.is_empty() {
        return Err(("no-integrity-attribute".into(), "".into()));
    }
    for t in &mis {
        if !codec::mi_ok(bytes, t, cr.pass_key.as_bytes()) {
            return Err(("MI-does-not-verify-under-the-password".into(), "".into()));
        }
    }
    for t in &shas {
        if !codec::sha_ok(bytes, t, cr.pass_key.as_bytes()) {
            return Err(("SHA256-does-not-verify-under-the-password".into(), "".into()));
        }
    }
    match agreed {
        Some(Alg::Mi) if mis.is_empty() => Err(("agreed-algorithm-MI-missing".into(), "".into())),
        Some(Alg::Sha) if shas.is_empty() => Err(("agreed-algorithm-SHA256-missing".into(), "".into())),
        _ => Ok(()),
    }
}

impl Monitor for Mon {
    fn fresh(&self) -> Box<dyn Monitor> {
        // agreed is re-derived from the configuration by the caller's prototype
        let mut m = self.clone();
        m.violated.clear();
        m.open_reason.clear();
        m.finals_before.clear();
        m.last_delivery = None;
        Box::new(m)
    }
    fn on_step(&mut self, w: &World, st: &Step, rep: Option<(&mut Report, &[Event])>) {
        let finals_before = std::mem::replace(&mut self.finals_before, w.reqs.iter().map(|r| r.finals.len()).collect());
        while self.violated.len() < w.reqs.len() {
            self.violated.push(false);
            self.open_reason.push(false);
        }
        let agreed_before = self.agreed;
        let reliable = w.cfg.reliable();
        // ---- expectations for a delivery -------------------------------------------------------------
        let mut expectation: Option<(&'static str, String)> = None; // (expected, description)
        if let Event::Deliver { to, reply } = st.ev {
            self.last_delivery = Some((to.clone(), *reply));
            let verifies_as = |a: Alg| match (reply.mac, a) {
                (RMac::Mi, Alg::Mi) | (RMac::Sha, Alg::Sha) => true,
                _ => false,
            };
            let acceptable = match agreed_before {
                Some(a) => verifies_as(a),
                None => verifies_as(Alg::Mi) || verifies_as(Alg::Sha),
            };
            let wrong_or_absent = matches!(reply.mac, RMac::None | RMac::BadMi | RMac::BadSha | RMac::MiOtherPass | RMac::ShaOtherPass | RMac::FoldMi | RMac::FoldSha);
            // a client that enforces FINGERPRINT refuses a message whose FINGERPRINT is wrong or missing before the
            // credential mechanism sees it: nothing is delivered, learned or marked (C10 says it is never delivered and
            // completes nothing; this monitor adds that it must not count as a response for C07's bookkeeping either)
            let fp_refused = w.cfg.fingerprint && reply.fp != super::server::RFp::Valid;
            match (&reply.class, to) {
                _ if fp_refused => {
                    expectation = Some(("refused-for-its-fingerprint", format!("{} with {:?} FINGERPRINT", mac_name(reply.mac), reply.fp)));
                    // a response that fails BOTH the FINGERPRINT and the integrity check is, for C17's "documented marker", a
                    // response that failed authentication if the client happens to look at the integrity first: whether the
                    // transaction's eventual time-out then reads TimedOut or ProtectionViolated is left open
                    if let (Target::Req(i), false) = (to, acceptable) {
                        if *i < self.open_reason.len() && !reliable {
                            self.open_reason[*i] = true;
                        }
                    }
                }
                (RClass::Success | RClass::Error(_), Target::Req(i)) if finals_before.get(*i).copied().unwrap_or(1) == 0 => {
                    let i = *i;
                    if acceptable {
                        expectation = Some(("delivered", format!("{} response, agreed {:?}", mac_name(reply.mac), agreed_before)));
                        if agreed_before.is_none() {
                            self.agreed = Some(if reply.mac == RMac::Mi { Alg::Mi } else { Alg::Sha });
                        }
                    } else if wrong_or_absent {
                        if reliable {
                            expectation = Some(("protection-violated-now", format!("{} response on reliable transport", mac_name(reply.mac))));
                        } else {
                            expectation = Some(("ignored", format!("{} response on unreliable transport", mac_name(reply.mac))));
                            self.violated[i] = true;
                        }
                    } else {
                        // both MACs, or only the non-agreed algorithm: the statement only asks for rejection
                        expectation = Some(("not-delivered", format!("{} response, agreed {:?}", mac_name(reply.mac), agreed_before)));
                        self.open_reason[i] = true;
                    }
                }
                (RClass::Indication, Target::Req(_)) if acceptable => {
                    // an acceptable indication that carries the id of an awaiting request: whether the client hands it over
                    // or refuses it as a stray is left open (C07 says "only if"); what it must not do - answer the request,
                    // touch what is remembered about the request's responses - shows in the request's eventual outcome
                    expectation = None;
                }
                (RClass::Indication, _) => {
                    if reply.mac == RMac::Both {
                        expectation = None; // not specified for indications
                    } else if acceptable {
                        expectation = Some(("indication-delivered", format!("{} indication, agreed {:?}", mac_name(reply.mac), agreed_before)));
                    } else {
                        expectation = Some(("ignored", format!("{} indication", mac_name(reply.mac))));
                    }
                }
                _ => {}
            }
        }
        let Some((rep, hist)) = rep else { return };
        let replay = || explore::history_replay(w, hist, st.obs);
        if let CallRes::Panic(p) = &st.obs.res {
            rep.violate(format!("client-panics/{}", crate::util::panic_site(p)), p.clone(), replay());
            return;
        }
        // ---- every emitted packet -------------------------------------------------------------------
        for e in &st.obs.events {
            if let OEv::Out { bytes, who } = e {
                // retransmissions are copies of the packet built at send time: judge with the agreement of that time
                let fresh = matches!(st.ev, Event::Send { .. } | Event::Indicate { .. });
                if fresh {
                    if let Err((k, d)) = check_packet(bytes, agreed_before, &w.cfg.creds()) {
                        let what = if matches!(who, Who::Ind(_)) { "indication" } else { "request" };
                        rep.violate(format!("outgoing-{}/{}", what, k), d, replay());
                    } else {
                        rep.sym("outgoing-packet-authenticated");
                    }
                }
            }
        }
        // ---- delivery verdicts ------------------------------------------------------------------------
        if let (Some((exp, what)), Event::Deliver { to, reply }) = (&expectation, st.ev) {
            let delivered = st.obs.events.iter().any(|e| matches!(e, OEv::Recv { .. }));
            let pv_now = st.obs.events.iter().any(|e| matches!(e, OEv::Failed(_, Reason::ProtectionViolated)));
            let cls = format!("{}-{}", mac_name(reply.mac), match reply.class {
                RClass::Success => "success",
                RClass::Error(_) | RClass::ErrorNoCode => "error",
                RClass::Indication => "indication",
                RClass::Request => "request",
            });
            let tr = if reliable { "reliable" } else { "unreliable" };
            match *exp {
                "refused-for-its-fingerprint" => {
                    if delivered || !matches!(st.obs.res, CallRes::RecvErr(_)) || !st.obs.events.is_empty() {
                        rep.violate(format!("message-with-wrong-or-missing-fingerprint-not-refused/{}", cls), format!("{:?} {:?}", st.obs.res, super::world::show_events(&st.obs.events)), replay());
                    } else {
                        rep.sym("refused-for-its-fingerprint");
                    }
                }
                "delivered" | "indication-delivered" => {
                    if !delivered || !matches!(st.obs.res, CallRes::RecvOk) {
                        rep.violate(format!("authenticated-message-not-delivered/{}/{}/agreed={:?}", cls, tr, agreed_before), what.clone(), replay());
                    } else {
                        rep.sym("delivered-authenticated");
                    }
                }
                "protection-violated-now" => {
                    if delivered {
                        rep.violate(format!("unauthenticated-message-delivered/{}/{}", cls, tr), what.clone(), replay());
                    } else if !pv_now {
                        rep.violate(format!("no-protection-violated-failure-on-reliable-transport/{}", cls), format!("{:?}", st.obs.res), replay());
                    } else {
                        rep.sym("protection-violated-on-reliable");
                    }
                }
                "ignored" => {
                    if delivered {
                        rep.violate(format!("unauthenticated-message-delivered/{}/{}/agreed={:?}", cls, tr, agreed_before), what.clone(), replay());
                    } else if !matches!(st.obs.res, CallRes::RecvErr(_)) || !st.obs.events.is_empty() {
                        rep.violate(format!("rejected-message-not-ignored/{}/{}", cls, tr), format!("{:?} {:?}", st.obs.res, super::world::show_events(&st.obs.events)), replay());
                    } else {
                        rep.sym("ignored-unauthenticated");
                    }
                }
                _ => {
                    if delivered {
                        rep.violate(format!("unauthenticated-message-delivered/{}/{}/agreed={:?}", cls, tr, agreed_before), what.clone(), replay());
                    } else {
                        rep.sym("rejected-both-or-other-algorithm");
                    }
                }
            }
            let _ = to;
        }
        // ---- reason of the final failure ----------------------------------------------------------------
        if !reliable {
            for (i, r) in w.reqs.iter().enumerate() {
                if r.finals.len() > finals_before.get(i).copied().unwrap_or(0) && r.finals.len() == 1 {
                    match &r.finals[0].1 {
                        FinalKind::Failed(Reason::TimedOut) if self.violated[i] => {
                            rep.violate("timed-out-although-a-response-failed-authentication", format!("T{}", i), replay());
                        }
                        FinalKind::Failed(Reason::ProtectionViolated) if !self.violated[i] && !self.open_reason[i] => {
                            rep.violate("protection-violated-without-a-failing-response", format!("T{}", i), replay());
                        }
                        FinalKind::Failed(Reason::ProtectionViolated) => rep.sym("protection-violated-at-timeout"),
                        FinalKind::Failed(Reason::TimedOut) => rep.sym("plain-timeout"),
                        _ => {}
                    }
                }
            }
        }
        // a delivered response must have been acceptable (covers deliveries the expectation logic did not anticipate)
        for e in &st.obs.events {
            if let OEv::Recv { class, .. } = e {
                if *class >= 2 && !matches!(expectation, Some(("delivered", _))) {
                    rep.violate("response-delivered-without-an-acceptable-integrity", format!("{:?}", st.ev.show()), replay());
                }
                if *class == 1 && !matches!(expectation, Some(("indication-delivered", _)) | None) {
                    rep.violate("indication-delivered-without-an-acceptable-integrity", format!("{:?}", st.ev.show()), replay());
                }
            }
        }
    }
    fn key(&self, w: &World) -> String {
        let live: Vec<String> = w.awaiting().iter().map(|i| format!("{}{}", self.violated[*i] as u8, self.open_reason[*i] as u8)).collect();
        format!("{:?}|{:?}|{}|{:?}", self.agreed, live, w.reqs.len(), self.last_delivery)
    }
    fn enabled(&self, w: &World) -> Vec<Event> {
        let mut v = vec![];
        if w.reqs.len() < self.max_sends {
            v.push(Event::Send { app: 0 });
        }
        if self.app_lists > 1 {
            // application-supplied credential attributes: sends and indications with every list, one acceptable reply of
            // either algorithm per awaiting request (so that the algorithm gets learned along the way)
            for app in 1..self.app_lists {
                if w.reqs.len() < self.max_sends {
                    v.push(Event::Send { app });
                }
                if w.inds.len() < 2 {
                    v.push(Event::Indicate { app });
                }
            }
            let fp = if w.cfg.fingerprint { super::server::RFp::Valid } else { super::server::RFp::Absent };
            for i in w.awaiting() {
                for m in [RMac::Mi, RMac::Sha] {
                    v.push(Event::Deliver { to: Target::Req(i), reply: Reply::plain(RClass::Success).with_mac(m).with_fp(fp) });
                }
            }
            return v;
        }
        if self.narrow {
            if !w.awaiting().is_empty() {
                v.push(Event::Timer);
                if !w.just_advanced {
                    for t in explore::time_reps(w, TimeDetail::Coarse) {
                        v.push(Event::AdvanceTo(t));
                    }
                }
            }
            let good = if self.agreed == Some(Alg::Sha) { RMac::Sha } else { RMac::Mi };
            let fps: Vec<super::server::RFp> = if w.cfg.fingerprint { vec![super::server::RFp::Valid, super::server::RFp::Bad, super::server::RFp::Absent] } else { vec![super::server::RFp::Absent] };
            for i in w.awaiting() {
                for m in [good, RMac::MiOtherPass] {
                    for f in &fps {
                        v.push(Event::Deliver { to: Target::Req(i), reply: Reply::plain(RClass::Success).with_mac(m).with_fp(*f) });
                    }
                }
                if w.cfg.fingerprint && self.agreed.is_none() {
                    // a response the other algorithm would make acceptable, refused for its FINGERPRINT: nothing is learned
                    v.push(Event::Deliver { to: Target::Req(i), reply: Reply::plain(RClass::Success).with_mac(RMac::Sha).with_fp(super::server::RFp::Bad) });
                    v.push(Event::Deliver { to: Target::Req(i), reply: Reply::plain(RClass::Success).with_mac(RMac::Sha).with_fp(super::server::RFp::Valid) });
                }
            }
            return v;
        }
        if w.inds.len() < 1 {
            v.push(Event::Indicate { app: 0 });
        }
        if !w.awaiting().is_empty() {
            v.push(Event::Timer);
            for t in explore::time_reps(w, TimeDetail::Coarse) {
                if !w.just_advanced {
                    v.push(Event::AdvanceTo(t));
                }
            }
        }
        for i in w.awaiting() {
            for m in mac_menu() {
                v.push(Event::Deliver { to: Target::Req(i), reply: Reply::plain(RClass::Success).with_mac(m) });
                if matches!(m, RMac::Mi | RMac::Sha | RMac::None | RMac::BadMi) {
                    v.push(Event::Deliver { to: Target::Req(i), reply: Reply::plain(RClass::Error(400)).with_mac(m) });
                }
            }
        }
        // an indication that carries the transaction id of an awaiting request (acceptable, and with a wrong MAC): it is not a
        // response - it neither answers the request nor touches what was remembered about its responses
        if let Some(i) = w.awaiting().first() {
            let good = if self.agreed == Some(Alg::Sha) { RMac::Sha } else { RMac::Mi };
            for m in [good, RMac::BadMi] {
                v.push(Event::Deliver { to: Target::Req(*i), reply: Reply::plain(RClass::Indication).with_mac(m) });
            }
        }
        if !w.reqs.is_empty() {
            for m in mac_menu() {
                v.push(Event::Deliver { to: Target::Unknown, reply: Reply::plain(RClass::Indication).with_mac(m) });
            }
            if !w.awaiting().is_empty() || w.reqs.iter().any(|r| !r.awaiting()) {
                // exact duplicate of the last delivered buffer
                if self.last_delivery.is_some() {
                    v.push(Event::Redeliver(usize::MAX));
                }
            }
        }
        v
    }
}

pub fn run(ctx: &RunCtx) -> i32 {
    let thorough = ctx.thorough();
    let apps: Arc<Vec<Vec<L>>> = Arc::new(vec![vec![]]);
    let shared = Shared::new();
    let mut cfgs = vec![];
    for t in [Transport::Unreliable { rto_ms: 100, gran_ms: 1, rm: 2, rc: 2 }, Transport::Reliable { timeout_ms: 300 }] {
        for m in [Mech::ShortTerm(None), Mech::ShortTerm(Some(false)), Mech::ShortTerm(Some(true))] {
            cfgs.push(Cfg { transport: t, mech: m, fingerprint: false, max_tx: 10, cred: 0, method: 1 });
        }
    }
    let depth = if thorough { 9 } else { 7 };
    let mut t0 = std::time::Instant::now();
    let per: Vec<_> = cfgs
        .par_iter()
        .map(|cfg| {
            let mut r = Report::new();
            let st = bfs(cfg, &apps, &Mon::new(2, cfg), depth, if thorough { 6_000_000 } else { 1_200_000 }, &mut r);
            r.states = st.states;
            r.transitions = st.transitions;
            r.sym("bfs-configs");
            shared.merge(r);
            json!({"config": cfg.show(), "depth": st.depth_completed, "states": st.states, "transitions": st.transitions})
        })
        .collect();
    // three requests in flight (replies for different requests interleave), shallower
    {
        let mut r = Report::new();
        r.extra.insert("seconds/bfs-configs".into(), json!(t0.elapsed().as_secs_f64().round()));
        t0 = std::time::Instant::now();
        for (t, m) in [(Transport::Unreliable { rto_ms: 100, gran_ms: 1, rm: 2, rc: 2 }, Mech::ShortTerm(None)), (Transport::Unreliable { rto_ms: 100, gran_ms: 1, rm: 2, rc: 2 }, Mech::ShortTerm(Some(true)))] {
            let cfg = Cfg { transport: t, mech: m, fingerprint: false, max_tx: 10, cred: 0, method: 1 };
            let st = bfs(&cfg, &apps, &Mon::new(3, &cfg), if thorough { 8 } else { 6 }, if thorough { 6_000_000 } else { 1_200_000 }, &mut r);
            r.states += st.states;
            r.transitions += st.transitions;
        }
        r.sym("three-requests");
        r.extra.insert("seconds/three-requests".into(), json!(t0.elapsed().as_secs_f64().round()));
        t0 = std::time::Instant::now();
        shared.merge(r);
    }
    // four requests in flight over a narrow alphabet (one acceptable and one wrongly keyed reply per request), deeper:
    // several requests carry a violated marker at once and end in every order
    {
        let mut r = Report::new();
        for (t, m) in [(Transport::Unreliable { rto_ms: 100, gran_ms: 1, rm: 2, rc: 1 }, Mech::ShortTerm(None)), (Transport::Unreliable { rto_ms: 100, gran_ms: 1, rm: 2, rc: 2 }, Mech::ShortTerm(Some(true)))] {
            let cfg = Cfg { transport: t, mech: m, fingerprint: false, max_tx: 10, cred: 0, method: 1 };
            let st = bfs(&cfg, &apps, &Mon::narrow(4, &cfg), if thorough { 13 } else { 10 }, if thorough { 8_000_000 } else { 2_000_000 }, &mut r);
            r.states += st.states;
            r.transitions += st.transitions;
            let d = r.extra.get("max_four_requests_depth_completed").and_then(|v| v.as_u64()).unwrap_or(0).max(st.depth_completed as u64);
            r.extra.insert("max_four_requests_depth_completed".into(), json!(d));
            if st.capped {
                r.capped = Some("four-requests job reached its state cap".into());
            }
            r.add_extra("four_requests_states", st.states as u64);
        }
        r.sym("four-requests-narrow");
        r.extra.insert("seconds/four-requests-narrow".into(), json!(t0.elapsed().as_secs_f64().round()));
        t0 = std::time::Instant::now();
        shared.merge(r);
    }
    // application-supplied USERNAME / MESSAGE-INTEGRITY / MESSAGE-INTEGRITY-SHA256 (keyed by the application): whatever
    // the application put in, every packet carries exactly the client's USERNAME and integrity that verifies
    {
        let lists: Arc<Vec<Vec<L>>> = Arc::new(vec![
            vec![],
            vec![L::Sha],
            vec![L::Mi],
            vec![L::Mi, L::Sha, L::UserName("mallory".into())],
            vec![L::UserName("mallory".into()), L::Software("app".into()), L::Sha, L::Mi],
        ]);
        let mut r = Report::new();
        let mut cfgs_done = 0usize;
        for t in [Transport::Unreliable { rto_ms: 100, gran_ms: 1, rm: 2, rc: 2 }, Transport::Reliable { timeout_ms: 300 }] {
            for m in [Mech::ShortTerm(None), Mech::ShortTerm(Some(false)), Mech::ShortTerm(Some(true))] {
                // credential set and method vary with the configuration (long password, enforced password, other methods)
                let k = cfgs_done;
                cfgs_done += 1;
                let cfg = Cfg { transport: t, mech: m, fingerprint: k % 2 == 1, max_tx: 10, cred: (k % 3) as u8, method: [1u16, 0x080, 0xFFF][k % 3] };
                let mut mon = Mon::new(3, &cfg);
                mon.app_lists = lists.len();
                let st = bfs(&cfg, &lists, &mon, if thorough { 6 } else { 5 }, 1_000_000, &mut r);
                r.states += st.states;
                r.transitions += st.transitions;
            }
        }
        r.sym("application-supplied-credentials");
        r.extra.insert("seconds/application-supplied-credentials".into(), json!(t0.elapsed().as_secs_f64().round()));
        t0 = std::time::Instant::now();
        shared.merge(r);
    }
    // FINGERPRINT x short-term credentials: two requests over the narrow alphabet, every reply with a right, wrong and missing
    // FINGERPRINT (a message refused for its FINGERPRINT must not clear a marker, learn an algorithm or end a transaction)
    {
        let mut r = Report::new();
        for (t, m) in [
            (Transport::Unreliable { rto_ms: 100, gran_ms: 1, rm: 2, rc: 2 }, Mech::ShortTerm(Some(false))),
            (Transport::Unreliable { rto_ms: 100, gran_ms: 1, rm: 2, rc: 1 }, Mech::ShortTerm(None)),
            (Transport::Reliable { timeout_ms: 300 }, Mech::ShortTerm(None)),
        ] {
            let cfg = Cfg { transport: t, mech: m, fingerprint: true, max_tx: 10, cred: 0, method: 1 };
            let st = bfs(&cfg, &apps, &Mon::narrow(2, &cfg), if thorough { 9 } else { 7 }, 1_500_000, &mut r);
            r.states += st.states;
            r.transitions += st.transitions;
        }
        r.sym("fingerprint-with-short-term");
        r.extra.insert("seconds/fingerprint-with-short-term".into(), json!(t0.elapsed().as_secs_f64().round()));
        t0 = std::time::Instant::now();
        shared.merge(r);
    }
    // many requests marked at once: N outstanding requests (40; thorough also 130), each gets a response under another
    // password, then all time out: every one ends ProtectionViolated
    {
        let ns: Vec<usize> = if thorough { vec![40, 130] } else { vec![40] };
        let mut r = Report::new();
        for n in ns {
            let cfg = Cfg { transport: Transport::Unreliable { rto_ms: 100, gran_ms: 1, rm: 2, rc: 1 }, mech: Mech::ShortTerm(Some(false)), fingerprint: false, max_tx: n, cred: 0, method: 1 };
            let proto = Mon::narrow(n, &cfg);
            let mut run = explore::start(&cfg, &apps, &proto);
            let mut hist: Vec<Event> = vec![];
            let mut evs: Vec<Event> = (0..n).map(|_| Event::Send { app: 0 }).collect();
            evs.extend((0..n).map(|i| Event::Deliver { to: Target::Req(i), reply: Reply::plain(RClass::Success).with_mac(RMac::MiOtherPass) }));
            evs.push(Event::AdvanceTo(300 * super::world::MS));
            evs.push(Event::Timer);
            for ev in evs {
                hist.push(ev.clone());
                let h = hist.clone();
                explore::step(&mut run, &ev, Some((&mut r, &h)));
                r.transitions += 1;
            }
        }
        r.sym("many-marked-requests");
        r.extra.insert("seconds/many-marked-requests".into(), json!(t0.elapsed().as_secs_f64().round()));
        t0 = std::time::Instant::now();
        shared.merge(r);
    }
    // run-to-completion with deviations on the default timing
    {
        let mut r = Report::new();
        for m in [Mech::ShortTerm(None), Mech::ShortTerm(Some(true))] {
            let cfg = Cfg { transport: Transport::Unreliable { rto_ms: 500, gran_ms: 1, rm: 16, rc: 7 }, mech: m, fingerprint: false, max_tx: 10, cred: 0, method: 1 };
            let n = super::devrun::explore(&cfg, &apps, &Mon::new(3, &cfg), if thorough { 3 } else { 2 }, &mut r);
            r.add_extra("deviation_bounded_executions", n);
        }
        r.sym("deviation-runs");
        r.extra.insert("seconds/deviation-runs".into(), json!(t0.elapsed().as_secs_f64().round()));
        shared.merge(r);
    }
    let mut rep = shared.into_inner();
    rep.extra.insert("per_config".into(), json!(per));
    crate::util::finish(
        ctx,
        rep,
        Finish {
            level: "model_checking",
            rule: format!("breadth-first exploration of the real client to depth {} for 2 transports x algorithm {{to be learned, MI, SHA256}} over {{Send (<=2), Indicate, Timer, AdvanceTo(next point, +1 ms, beyond), Deliver(each awaiting request x {{valid MI, valid SHA256, both, none, corrupted MI, corrupted SHA256, MI / SHA256 under another password, MI wrong in two bytes four apart with the same mask, SHA256 with every byte inverted}} as success (and 4 of them as error response), Deliver(indication x the 8 kinds), Deliver(an acceptable / a wrongly keyed indication carrying the id of an awaiting request), exact duplicate of the last buffer}}; replies are built by the reference codec with independent HMACs; plus the same alphabet with three requests in flight (one level shallower), four requests in flight over a narrow alphabet (Send, Timer, AdvanceTo, one acceptable and one wrongly keyed reply per awaiting request) three (thorough four) levels deeper, requests and indications built from 4 application attribute lists that pre-populate USERNAME / MESSAGE-INTEGRITY / MESSAGE-INTEGRITY-SHA256 under the application's own key (depth 5 / 6, algorithm learned along the way; these six configurations also rotate through three credential sets - short ASCII, 70-byte user with 129-byte password, non-ASCII user with a password rewritten by OpaqueString enforcement - methods 0x001 / 0x080 / 0xFFF and fingerprint on / off), two requests on fingerprint-enforcing clients with every reply carrying a right, wrong or missing FINGERPRINT (a message refused for its FINGERPRINT is refused entirely: no delivery, no learning, no event; only when it ALSO fails the integrity check may it leave the protection-violated marker), a directed run with 40 (thorough 130) outstanding requests that each receive a wrongly keyed response and then time out together, and deviation-bounded runs on the default timing. Monitor: agreed := configured, else learned at the first delivered response; acceptable responses are delivered, everything else is not; wrong / absent integrity => ProtectionViolated at once on reliable transport, ignored (Err, no events) on unreliable transport and ProtectionViolated instead of TimedOut at the end unless an acceptable response arrived; both-MACs and other-algorithm replies only need to be rejected; every request and indication sent carries USERNAME and integrity attributes that verify under the password (the agreed kind once agreed)", depth),
            assumptions: vec!["single user / password pair".into(), "indications carrying both MACs are not judged (the statement speaks of responses)".into()],
            required_symbols: vec!["bfs-configs", "delivered-authenticated", "ignored-unauthenticated", "protection-violated-on-reliable", "rejected-both-or-other-algorithm", "protection-violated-at-timeout", "plain-timeout", "outgoing-packet-authenticated", "deviation-runs", "Redeliver", "three-requests", "four-requests-narrow", "application-supplied-credentials", "many-marked-requests", "fingerprint-with-short-term", "refused-for-its-fingerprint"],
            min_outcomes: 8,
            exhaustive: true,
            bounds: json!({"depth": depth}),
        },
    )
}
