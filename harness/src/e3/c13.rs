//! C13 Every packet the client emits is well formed and retransmissions are identical.

use super::explore::{self, Event, Monitor, Step, Target};
use super::server::{Chal, NonceKind, PasKind, RClass, RMac, Reply, REALM};
use super::world::{CallRes, Cfg, Mech, OEv, Transport, Who, World};
use crate::refs::codec::{self, ref_parse, value_bytes, L};
use crate::util::{Finish, Report, RunCtx, Shared};
use rayon::prelude::*;
use serde_json::json;
use std::sync::Arc;

struct Nop;
impl Monitor for Nop {
    fn fresh(&self) -> Box<dyn Monitor> {
        Box::new(Nop)
    }
    fn on_step(&mut self, _w: &World, _st: &Step, _rep: Option<(&mut Report, &[Event])>) {}
    fn key(&self, _w: &World) -> String {
        String::new()
    }
    fn enabled(&self, _w: &World) -> Vec<Event> {
        vec![]
    }
    fn needs_snapshots(&self) -> bool {
        false
    }
}

pub fn alphabet() -> Vec<L> {
    vec![
        L::Software("a".into()),
        L::Software("b".into()),
        L::Priority(7),
        L::UserName("someone-else".into()),
        L::Realm("other.example".into()),
        L::Nonce("stale".into()),
        L::UserHash(codec::userhash_ref("user", "realm")),
        L::PasswordAlgorithm(1, vec![]),
        L::PasswordAlgorithms(vec![(1, vec![])]),
        L::Mi,
        L::Sha,
        L::Fp,
    ]
}

/// a credential state representative: configuration + the history that reaches it + what it is called
struct Rep {
    name: &'static str,
    cfg: Cfg,
    prefix: Vec<Event>,
    /// realm / nonce the client must echo (long-term), candidate key algorithms
    nonce: Option<String>,
    algs: Vec<u16>,
    /// realm of the challenge in force (long-term)
    realm: &'static str,
    /// the challenge in force sets the user-name anonymity bit: USERHASH instead of USERNAME
    anon: bool,
}

fn reps(fingerprint: bool, reliable: bool) -> Vec<Rep> {
    reps_for(fingerprint, reliable, 0)
}

fn reps_for(fingerprint: bool, reliable: bool, cred: u8) -> Vec<Rep> {
    let tr = if reliable { Transport::Reliable { timeout_ms: 1000 } } else { Transport::Unreliable { rto_ms: 100, gran_ms: 1, rm: 2, rc: 3 } };
    let cfg = |m: Mech| Cfg { transport: tr, mech: m, fingerprint, max_tx: 10, cred, method: 1 };
    let fp = if fingerprint { super::server::RFp::Valid } else { super::server::RFp::Absent };
    let ok = |m: RMac| Reply::plain(RClass::Success).with_mac(m).with_fp(fp);
    let c401 = |n: NonceKind, p: PasKind| Reply::plain(RClass::Error(401)).with_chal(Chal { realm: true, nonce: n, pas: p, realm_v: 0, order: 0 }).with_fp(fp);
    let c401v = |n: NonceKind, p: PasKind, v: u8| Reply::plain(RClass::Error(401)).with_chal(Chal { realm: true, nonce: n, pas: p, realm_v: v, order: 0 }).with_fp(fp);
    let c438 = |n: NonceKind, p: PasKind, m: RMac| Reply::plain(RClass::Error(438)).with_chal(Chal { realm: false, nonce: n, pas: p, realm_v: 0, order: 0 }).with_mac(m).with_fp(fp);
    let d = |i: usize, r: Reply| Event::Deliver { to: Target::Req(i), reply: r };
    let s = Event::Send { app: 0 };
    let cookie = NonceKind::Cookie(true, true, 1);
    let mut v = vec![
        Rep { name: "no-mechanism", cfg: cfg(Mech::None), prefix: vec![], nonce: None, algs: vec![], realm: REALM, anon: false },
        Rep { name: "short-term/unlearned", cfg: cfg(Mech::ShortTerm(None)), prefix: vec![], nonce: None, algs: vec![], realm: REALM, anon: false },
        // a response that was REFUSED (integrity under another password) teaches nothing: the client is still unlearned
        Rep { name: "short-term/unlearned-after-refused-MI", cfg: cfg(Mech::ShortTerm(None)), prefix: vec![s.clone(), d(0, ok(RMac::MiOtherPass))], nonce: None, algs: vec![], realm: REALM, anon: false },
        Rep { name: "short-term/unlearned-after-refused-SHA256", cfg: cfg(Mech::ShortTerm(None)), prefix: vec![s.clone(), d(0, ok(RMac::BadSha))], nonce: None, algs: vec![], realm: REALM, anon: false },
        Rep { name: "short-term/learned-MI", cfg: cfg(Mech::ShortTerm(None)), prefix: vec![s.clone(), d(0, ok(RMac::Mi))], nonce: None, algs: vec![], realm: REALM, anon: false },
        Rep { name: "short-term/learned-SHA256", cfg: cfg(Mech::ShortTerm(None)), prefix: vec![s.clone(), d(0, ok(RMac::Sha))], nonce: None, algs: vec![], realm: REALM, anon: false },
        Rep { name: "short-term/configured-MI", cfg: cfg(Mech::ShortTerm(Some(false))), prefix: vec![], nonce: None, algs: vec![], realm: REALM, anon: false },
        Rep { name: "short-term/configured-SHA256", cfg: cfg(Mech::ShortTerm(Some(true))), prefix: vec![], nonce: None, algs: vec![], realm: REALM, anon: false },
        Rep { name: "long-term/first-request", cfg: cfg(Mech::LongTerm), prefix: vec![], nonce: None, algs: vec![], realm: REALM, anon: false },
        Rep {
            name: "long-term/retry-after-401-plain",
            cfg: cfg(Mech::LongTerm),
            prefix: vec![s.clone(), d(0, c401(NonceKind::Plain(1), PasKind::Absent))],
            nonce: super::server::nonce_string(NonceKind::Plain(1)),
            algs: vec![1],
            realm: REALM,
            anon: false,
        },
        Rep {
            name: "long-term/retry-after-401-cookie",
            cfg: cfg(Mech::LongTerm),
            prefix: vec![s.clone(), d(0, c401(cookie, PasKind::Md5Sha256))],
            nonce: super::server::nonce_string(cookie),
            algs: vec![1, 2],
            realm: REALM,
            anon: false,
        },
        Rep {
            name: "long-term/subsequent-MD5",
            cfg: cfg(Mech::LongTerm),
            prefix: vec![s.clone(), d(0, c401(NonceKind::Plain(1), PasKind::Absent)), s.clone(), d(1, ok(RMac::Mi))],
            nonce: super::server::nonce_string(NonceKind::Plain(1)),
            algs: vec![1],
            realm: REALM,
            anon: false,
        },
        Rep {
            name: "long-term/subsequent-SHA256",
            cfg: cfg(Mech::LongTerm),
            prefix: vec![s.clone(), d(0, c401(cookie, PasKind::Md5Sha256)), s.clone(), d(1, ok(RMac::Sha))],
            nonce: super::server::nonce_string(cookie),
            algs: vec![1, 2],
            realm: REALM,
            anon: false,
        },
        // a 438 whose integrity does not verify is REFUSED: nonce, algorithms and state stay those of the accepted challenge
        Rep {
            name: "long-term/subsequent-SHA256-after-a-refused-438",
            cfg: cfg(Mech::LongTerm),
            prefix: vec![
                s.clone(),
                d(0, c401(cookie, PasKind::Md5Sha256)),
                s.clone(),
                d(1, ok(RMac::Sha)),
                s.clone(),
                d(2, c438(NonceKind::Cookie(true, true, 9), PasKind::Md5Sha256, RMac::BadSha)),
            ],
            nonce: super::server::nonce_string(cookie),
            algs: vec![1, 2],
            realm: REALM,
            anon: false,
        },
        Rep {
            name: "long-term/retry-after-438",
            cfg: cfg(Mech::LongTerm),
            prefix: vec![
                s.clone(),
                d(0, c401(cookie, PasKind::Md5Sha256)),
                s.clone(),
                d(1, ok(RMac::Sha)),
                s.clone(),
                d(2, c438(NonceKind::Cookie(true, true, 5), PasKind::Md5Sha256, RMac::None)),
            ],
            nonce: super::server::nonce_string(NonceKind::Cookie(true, true, 5)),
            algs: vec![1, 2],
            realm: REALM,
            anon: false,
        },
        Rep {
            name: "long-term/retry-after-401-cookie-with-unassigned-feature-bits",
            cfg: cfg(Mech::LongTerm),
            prefix: vec![s.clone(), d(0, c401(NonceKind::CookieX(true, true, 3), PasKind::Md5Sha256))],
            nonce: super::server::nonce_string(NonceKind::CookieX(true, true, 3)),
            algs: vec![1, 2],
            realm: REALM,
            anon: false,
        },
        // a second challenge naming the realm in another letter case / another realm: everything derived from the
        // realm (key, USERHASH) must follow the realm the packet carries
        Rep {
            name: "long-term/retry-after-second-401-realm-in-other-case",
            cfg: cfg(Mech::LongTerm),
            prefix: vec![s.clone(), d(0, c401(cookie, PasKind::Md5Sha256)), s.clone(), d(1, c401v(NonceKind::Cookie(true, true, 6), PasKind::Md5Sha256, 1))],
            nonce: super::server::nonce_string(NonceKind::Cookie(true, true, 6)),
            algs: vec![1, 2],
            realm: super::server::realm_name(1),
            anon: false,
        },
        Rep {
            name: "long-term/subsequent-after-second-401-other-realm",
            cfg: cfg(Mech::LongTerm),
            prefix: vec![s.clone(), d(0, c401(NonceKind::Plain(1), PasKind::Absent)), s.clone(), d(1, c401v(NonceKind::Plain(7), PasKind::Absent, 2)), s.clone(), d(2, ok(RMac::Mi))],
            nonce: super::server::nonce_string(NonceKind::Plain(7)),
            algs: vec![1],
            realm: super::server::realm_name(2),
            anon: false,
        },
    ];
    // the anonymity bit of the cookie nonce in force decides between USERNAME and USERHASH
    for r in v.iter_mut() {
        r.anon = r.nonce.as_deref().map(cookie_anonymity_bit).unwrap_or(false);
    }
    v
}

/// second feature bit (user-name anonymity) of an RFC 8489 nonce cookie, by an own base64 reading of its four flag characters
fn cookie_anonymity_bit(nonce: &str) -> bool {
    const T: &[u8; 64] = b"ABCDEFGHIJKLMNOPQRSTUVWXYZabcdefghijklmnopqrstuvwxyz0123456789+/";
    let Some(rest) = nonce.strip_prefix("obMatJos2") else { return false };
    let c = rest.as_bytes();
    if c.len() < 4 {
        return false;
    }
    match T.iter().position(|x| *x == c[0]) {
        Some(v) => (v as u8) & 0x10 != 0, // first sextet = bits 23..18: anonymity is bit 22
        None => false,
    }
}

/// (name, configuration, history reaching the state) for other properties that need credential-state representatives
pub fn representatives(fingerprint: bool, reliable: bool) -> Vec<(&'static str, Cfg, Vec<Event>)> {
    reps(fingerprint, reliable).into_iter().map(|r| (r.name, r.cfg, r.prefix)).collect()
}

const OWNED_ST: [u16; 3] = [codec::T_USERNAME, codec::T_MI, codec::T_SHA];
const OWNED_LT: [u16; 8] = [
    codec::T_USERNAME,
    codec::T_USERHASH,
    codec::T_REALM,
    codec::T_NONCE,
    codec::T_PASSWORD_ALGORITHM,
    codec::T_PASSWORD_ALGORITHMS,
    codec::T_MI,
    codec::T_SHA,
];

fn check_packet(rep_: &Rep, app: &[L], bytes: &[u8], class: u8, method: u16, earlier_ids: &[[u8; 12]]) -> Result<(), (String, String)> {
    let p = ref_parse(bytes).map_err(|e| ("unparseable".to_string(), e))?;
    if p.class != class || p.method != method {
        return Err(("wrong-class-or-method".into(), format!("class {} method {:#x}", p.class, p.method)));
    }
    if earlier_ids.contains(&p.tid) {
        return Err(("transaction-id-reused".into(), "".into()));
    }
    let owned: Vec<u16> = match rep_.cfg.mech {
        Mech::None => vec![],
        Mech::ShortTerm(_) => OWNED_ST.to_vec(),
        Mech::LongTerm => OWNED_LT.to_vec(),
    };
    let tail_types = [codec::T_MI, codec::T_SHA, codec::T_FP];
    // (5) no type twice
    for (k, t) in p.tlvs.iter().enumerate() {
        if p.tlvs[..k].iter().any(|x| x.ty == t.ty) {
            return Err((format!("attribute-type-twice/{:#06x}", t.ty), "".into()));
        }
    }
    // (2) the application's own attributes: one per type, first-insertion order, last value
    let mut expected_app: Vec<(u16, Vec<u8>)> = vec![];
    for a in app {
        // `remove::<T>()` of the application (world::remove_op): the type leaves the collection; a later add appends it
        if let L::Unknown(super::world::REMOVE_MARK, Some(t)) = a {
            let rt = u16::from_be_bytes([t[0], t[1]]);
            expected_app.retain(|x| x.0 != rt);
            continue;
        }
        let ty = a.type_code();
        if tail_types.contains(&ty) || owned.contains(&ty) {
            continue;
        }
        let v = value_bytes(a, &p.tid);
        match expected_app.iter_mut().find(|x| x.0 == ty) {
            Some(e) => e.1 = v,
            None => expected_app.push((ty, v)),
        }
    }
    for (k, (ty, v)) in expected_app.iter().enumerate() {
        match p.tlvs.get(k) {
            Some(t) if t.ty == *ty && &t.value == v => {}
            other => {
                return Err((
                    "application-attributes-not-first-in-insertion-order-with-last-value".into(),
                    format!("position {}: expected type {:#06x}, found {:?}", k, ty, other.map(|t| t.ty)),
                ))
            }
        }
    }
    // (3) then only credential attributes of the mechanism
    let mut k = expected_app.len();
    while k < p.tlvs.len() && !tail_types.contains(&p.tlvs[k].ty) {
        let t = &p.tlvs[k];
        if !owned.contains(&t.ty) {
            return Err((format!("unexpected-attribute-after-application-attributes/{:#06x}", t.ty), "".into()));
        }
        // replaced, not the application's value
        match t.ty {
            codec::T_USERNAME if t.value != rep_.cfg.creds().user.as_bytes() => return Err(("application-USERNAME-not-replaced".into(), String::from_utf8_lossy(&t.value).into())),
            codec::T_REALM if t.value != rep_.realm.as_bytes() => return Err(("application-REALM-not-replaced".into(), String::from_utf8_lossy(&t.value).into())),
            codec::T_NONCE if Some(t.value.as_slice()) != rep_.nonce.as_deref().map(|s| s.as_bytes()) => {
                return Err(("NONCE-is-not-the-server's".into(), String::from_utf8_lossy(&t.value).into()))
            }
            codec::T_USERHASH if t.value != crate::refs::crypto::sha256(format!("{}:{}", rep_.cfg.creds().user, rep_.realm).as_bytes()) => {
                return Err(("USERHASH-is-not-SHA256(user:realm)".into(), "".into()))
            }
            _ => {}
        }
        k += 1;
    }
    // long-term: once a challenge is in force the user is named by USERHASH iff the cookie asked for anonymity
    if matches!(rep_.cfg.mech, Mech::LongTerm) && rep_.nonce.is_some() {
        let cred: Vec<u16> = p.tlvs[expected_app.len()..k].iter().map(|t| t.ty).collect();
        let (has_name, has_hash) = (cred.contains(&codec::T_USERNAME), cred.contains(&codec::T_USERHASH));
        if rep_.anon && (!has_hash || has_name) {
            return Err(("anonymity-requested-but-user-not-named-by-USERHASH-only".into(), format!("{:04x?}", cred)));
        }
        if !rep_.anon && (has_hash || !has_name) {
            return Err(("no-anonymity-requested-but-user-not-named-by-USERNAME-only".into(), format!("{:04x?}", cred)));
        }
    }
    // (4) then at most one MI, one SHA256, one FINGERPRINT, in that order, as the final attributes
    let tail: Vec<u16> = p.tlvs[k..].iter().map(|t| t.ty).collect();
    let mut want_order = vec![];
    for t in tail_types {
        if tail.contains(&t) {
            want_order.push(t);
        }
    }
    if tail != want_order {
        return Err(("integrity-fingerprint-tail-out-of-order".into(), format!("{:04x?}", tail)));
    }
    if rep_.cfg.fingerprint && tail.last() != Some(&codec::T_FP) {
        return Err(("fingerprint-configured-but-not-last".into(), format!("{:04x?}", tail)));
    }
    let keys: Vec<Vec<u8>> = match rep_.cfg.mech {
        Mech::None => vec![b"application-key".to_vec()],
        Mech::ShortTerm(_) => vec![rep_.cfg.creds().pass_key.as_bytes().to_vec()],
        Mech::LongTerm => rep_.algs.iter().map(|a| super::server::lt_key_for(rep_.cfg.creds().user, *a, rep_.realm, rep_.cfg.creds().pass_key)).collect(),
    };
    for t in &p.tlvs[k..] {
        let ok = match t.ty {
            codec::T_MI => keys.iter().any(|key| codec::mi_ok(bytes, t, key)),
            codec::T_SHA => keys.iter().any(|key| codec::sha_ok(bytes, t, key)),
            _ => codec::fp_ok(bytes, t),
        };
        if !ok {
            return Err((format!("tail-attribute-does-not-verify/{:#06x}", t.ty), "".into()));
        }
    }
    Ok(())
}

pub fn run(ctx: &RunCtx) -> i32 {
    let thorough = ctx.thorough();
    let alpha = alphabet();
    let max_len = if crate::util::second_pass() { 2 } else if thorough { 5 } else { 4 };
    // every sequence of length <= max_len over the alphabet
    let mut lists: Vec<Vec<L>> = vec![vec![]];
    let mut frontier: Vec<Vec<L>> = vec![vec![]];
    for _ in 0..max_len {
        let mut next = vec![];
        for l in &frontier {
            for a in &alpha {
                let mut x = l.clone();
                x.push(a.clone());
                next.push(x);
            }
        }
        lists.extend(next.clone());
        frontier = next;
    }
    // collections built by add AND remove (round 14): three ordinary attributes of distinct types in every order, one of them
    // removed, then one of six values added (a replacement of a remaining one, the removed type again, or the other SOFTWARE)
    {
        let base = [L::Software("a".into()), L::Priority(7), L::UserName("someone-else".into()), L::Realm("other.example".into()), L::Nonce("stale".into())];
        let adds = [L::Software("b".into()), L::Priority(9), L::UserName("x".into()), L::Realm("r2".into()), L::Nonce("n2".into()), L::Software("a".into())];
        for i in 0..base.len() {
            for j in 0..base.len() {
                for k in 0..base.len() {
                    if i == j || j == k || i == k {
                        continue;
                    }
                    for rm in [i, j, k] {
                        for add in &adds {
                            lists.push(vec![base[i].clone(), base[j].clone(), base[k].clone(), super::world::remove_op(base[rm].type_code()), add.clone()]);
                        }
                    }
                }
            }
        }
    }
    let n_lists = lists.len();
    let apps = Arc::new(lists);
    let shared = Shared::new();
    let mut all_reps: Vec<Rep> = vec![];
    for fp in [false, true] {
        for rel in [false, true] {
            all_reps.extend(reps(fp, rel));
        }
    }
    // the other credential sets (a 70-byte user name with a 129-byte password; the RFC 5769 Katakana user name with a
    // password that OpaqueString enforcement changes), on one transport / fingerprint combination each
    all_reps.extend(reps_for(false, false, 1).into_iter().filter(|r| !matches!(r.cfg.mech, Mech::None)));
    all_reps.extend(reps_for(true, true, 2).into_iter().filter(|r| !matches!(r.cfg.mech, Mech::None)));
    // client-builder routes: the optional builder calls (max_transactions, mechanism, fingerprint) in all six orders give
    // clients that behave alike: same packets (up to the transaction id), same events, same internal state after the
    // representative's history, one more request, a timer call and a refused request beyond the limit
    {
        let mut r = Report::new();
        let mut cfg_seen = std::collections::HashSet::new();
        for rp in &all_reps {
            for max_tx in [1usize, 10] {
                let mut cfg = rp.cfg.clone();
                cfg.max_tx = max_tx;
                if !cfg_seen.insert((cfg.show(), rp.name)) {
                    continue;
                }
                let trace = |order: u8| -> Vec<String> {
                    super::world::BUILD_ORDER.with(|c| c.set(order));
                    let mut run = explore::replay(&cfg, &apps, &Nop, &rp.prefix);
                    let mut out = vec![];
                    for ev in [Event::Send { app: 0 }, Event::Send { app: 0 }, Event::Timer, Event::Indicate { app: 0 }] {
                        let o = explore::step(&mut run, &ev, None);
                        let evs: Vec<String> = o
                            .events
                            .iter()
                            .map(|e| match e {
                                OEv::Out { who, bytes } => format!("Out({:?},{:04x?})", who, crate::refs::codec::ref_parse(bytes).map(|p| p.tlvs.iter().map(|t| (t.ty, t.value.len())).collect::<Vec<_>>()).unwrap_or_default()),
                                // (which of several requests with the same deadline is named may depend on the random ids)
                                OEv::Rto { ns, .. } => format!("Rto {{ ns: {} }}", ns),
                                o => format!("{:?}", o),
                            })
                            .collect();
                        let mut evs = evs;
                        evs.sort();
                        out.push(format!("{:?} {:?} | {}", o.res, evs, run.w.canon()));
                    }
                    super::world::BUILD_ORDER.with(|c| c.set(0));
                    out
                };
                let base = trace(0);
                for order in 1..6u8 {
                    r.eval();
                    let t = trace(order);
                    if t != base {
                        let ix = t.iter().zip(base.iter()).position(|(a, b)| a != b).unwrap_or(0);
                        r.violate(
                            format!("client-builder-call-order-changes-behaviour/{}", rp.name),
                            format!("order {}: {} | canonical order: {}", order, t.get(ix).cloned().unwrap_or_default(), base.get(ix).cloned().unwrap_or_default()),
                            json!({"config": cfg.show(), "state": rp.name, "builder_order": order}),
                        );
                        break;
                    }
                    r.sym("client-builder-routes");
                }
            }
        }
        shared.merge(r);
    }
    // the largest packets: in every state, requests and indications whose application list holds an UNKNOWN-ATTRIBUTES of n
    // codes (alone, or after a 4-byte SOFTWARE), n swept so that the packet (20-byte header + attributes; the size is known
    // from a small send in the same state) runs through the last 48 bytes up to the largest STUN message there is (65,552
    // bytes: a 16-bit length field counting the attribute bytes, a multiple of four) and two sizes beyond, into a 70,000-byte
    // buffer. Up to 65,552 bytes the packet is emitted whole and passes the same checks as every other packet; beyond, the
    // send is refused and no packet appears.
    {
        let pad4 = |x: usize| (x + 3) / 4 * 4;
        all_reps.par_iter().enumerate().for_each(|(ri, rp)| {
            let mut r = Report::new();
            for with_software in [false, true] {
                for indication in [false, true] {
                    if indication && matches!(rp.cfg.mech, Mech::LongTerm) {
                        continue;
                    }
                    if (ri + with_software as usize) % 2 == 1 && !thorough {
                        continue;
                    }
                    let list = |n: usize| -> Vec<L> {
                        let mut l = vec![];
                        if with_software {
                            l.push(L::Software("abcd".into()));
                        }
                        l.push(L::UnknownAttributes((0..n).map(|x| (x as u16).wrapping_mul(7)).collect()));
                        l
                    };
                    let send = |n: usize| -> (explore::Run, crate::e3::world::Obs, Arc<Vec<Vec<L>>>) {
                        // (the history that reaches the state uses the empty application list)
                        let a = Arc::new(vec![vec![], list(n)]);
                        let mut run = explore::replay(&rp.cfg, &a, &Nop, &rp.prefix);
                        let o = explore::step(&mut run, &Event::SendM { app: 1, method: 1, indication }, None);
                        (run, o, a)
                    };
                    let (_, o0, _) = send(2);
                    let Some(s0) = o0.events.iter().find_map(|e| if let OEv::Out { bytes, .. } = e { Some(bytes.len()) } else { None }) else { continue };
                    let size = |n: usize| s0 - 4 + pad4(2 * n);
                    let n_max = (0..=32_767usize).rev().find(|n| size(*n) <= 65_552).unwrap();
                    for n in n_max.saturating_sub(24)..=(n_max + 3).min(32_767) {
                        r.eval();
                        let (run, o, a) = send(n);
                        let outs: Vec<&Vec<u8>> = o.events.iter().filter_map(|e| if let OEv::Out { bytes, .. } = e { Some(bytes) } else { None }).collect();
                        let replay = || json!({"kind": "packet", "state": rp.name, "config": rp.cfg.show(), "application_attributes": format!("{}UNKNOWN-ATTRIBUTES with {} codes (7*i mod 65536)", if with_software { "SOFTWARE 'abcd', " } else { "" }, n), "indication": indication, "buffer": 70000, "expected_packet_size": size(n)});
                        let earlier: Vec<[u8; 12]> = run.w.reqs.iter().rev().skip(1).map(|q| q.id).collect();
                        match (&o.res, size(n) <= 65_552) {
                            (CallRes::Panic(p), _) => r.violate(format!("client-panics/{}", crate::util::panic_site(p)), p.clone(), replay()),
                            (CallRes::SendOk(_) | CallRes::IndOk(_), true) => {
                                if outs.len() != 1 {
                                    r.violate("not-exactly-one-packet-per-send", format!("{}", outs.len()), replay());
                                } else if outs[0].len() != size(n) {
                                    r.violate(format!("largest-packets/packet-size-differs/{}", rp.name), format!("{} bytes, expected {}", outs[0].len(), size(n)), replay());
                                } else {
                                    match check_packet(rp, &a[1], outs[0], if indication { 1 } else { 0 }, 1, &earlier) {
                                        Ok(()) => r.sym("largest-packets"),
                                        Err((k, d)) => r.violate(format!("largest-packets/{}/{}", k, rp.name), d, replay()),
                                    }
                                }
                            }
                            (CallRes::SendErr(_) | CallRes::IndErr(_), false) => {
                                if outs.is_empty() {
                                    r.sym("beyond-the-largest-packet-refused");
                                } else {
                                    r.violate("largest-packets/refused-send-emits-a-packet", "", replay());
                                }
                            }
                            // (the statement speaks about the packets that ARE emitted: a client that refuses a large send
                            // without emitting anything does not contradict it; the required symbol "largest-packets" keeps the
                            // job from passing vacuously)
                            (CallRes::SendErr(_) | CallRes::IndErr(_), true) => {
                                if outs.is_empty() {
                                    r.sym("large-send-refused-without-a-packet");
                                } else {
                                    r.violate("largest-packets/refused-send-emits-a-packet", "", replay());
                                }
                            }
                            (res, _) => r.violate(format!("largest-packets/oversized-send-succeeds/{}", rp.name), format!("{:?} at {} bytes", res, size(n)), replay()),
                        }
                    }
                }
            }
            shared.merge(r);
        });
    }
    let n_reps = all_reps.len();
    // (representative, list index) pairs in parallel
    let work: Vec<(usize, usize)> = (0..all_reps.len()).flat_map(|r| (0..n_lists).map(move |l| (r, l))).collect();
    work.par_chunks(256).for_each(|chunk| {
        let mut r = Report::new();
        for (ri, li) in chunk {
            let rp = &all_reps[*ri];
            for (method, indication) in [(1u16, false), (1, true), (0x003, false), (0xFFF, true), (0xFFF, false)] {
                if !thorough && method != 1 && li % 7 != 0 {
                    continue; // other methods on every 7th list in the quick tier
                }
                let mut run = explore::replay(&rp.cfg, &apps, &Nop, &rp.prefix);
                if run.w.dead.is_some() {
                    continue;
                }
                let earlier: Vec<[u8; 12]> = run.w.reqs.iter().map(|q| q.id).collect();
                let obs = explore::step(&mut run, &Event::SendM { app: *li, method, indication }, None);
                r.transitions += rp.prefix.len() as u64 + 1;
                r.states += 1;
                let replay = || json!({"kind": "packet", "state": rp.name, "config": rp.cfg.show(), "application_attributes": apps[*li].iter().map(|a| a.show()).collect::<Vec<_>>(), "method": method, "indication": indication});
                match &obs.res {
                    CallRes::Panic(p) => {
                        r.violate(format!("client-panics/{}", crate::util::panic_site(p)), p.clone(), replay());
                        continue;
                    }
                    CallRes::IndErr(_) if matches!(rp.cfg.mech, Mech::LongTerm) => {
                        r.sym("long-term-indication-refused");
                        continue;
                    }
                    CallRes::SendErr(e) | CallRes::IndErr(e) => {
                        r.violate(format!("send-fails/{}", rp.name), format!("{:?}", e), replay());
                        continue;
                    }
                    _ => {}
                }
                let outs: Vec<&Vec<u8>> = obs.events.iter().filter_map(|e| if let OEv::Out { bytes, .. } = e { Some(bytes) } else { None }).collect();
                if outs.len() != 1 {
                    r.violate("not-exactly-one-packet-per-send", format!("{}", outs.len()), replay());
                    continue;
                }
                match check_packet(rp, &apps[*li], outs[0], if indication { 1 } else { 0 }, method, &earlier) {
                    Ok(()) => {
                        // "still unlearned" means: the same attribute kinds as a client that never received anything
                        if (rp.name.starts_with("short-term/unlearned-after-refused") || rp.name.ends_with("after-a-refused-438")) && li % 3 == 0 {
                            // (the same history without its last two events: the request that got the refused answer, and
                            // that answer)
                            let base: &[Event] = if rp.name.ends_with("after-a-refused-438") { &rp.prefix[..rp.prefix.len() - 2] } else { &[] };
                            let mut fresh = explore::replay(&rp.cfg, &apps, &Nop, base);
                            let o2 = explore::step(&mut fresh, &Event::SendM { app: *li, method, indication }, None);
                            let kinds = |b: &[u8]| ref_parse(b).map(|p| p.tlvs.iter().map(|t| t.ty).collect::<Vec<u16>>()).unwrap_or_default();
                            let want = o2.events.iter().find_map(|e| if let OEv::Out { bytes, .. } = e { Some(kinds(bytes)) } else { None }).unwrap_or_default();
                            if kinds(outs[0]) != want {
                                r.violate(format!("credential-attributes-differ-from-the-unlearned-client's/{}", rp.name), format!("{:04x?} vs {:04x?}", kinds(outs[0]), want), replay());
                            }
                        }
                        r.sym(rp.name);
                        r.outcome(format!("{}:{}", rp.name, ref_parse(outs[0]).map(|p| p.tlvs.len()).unwrap_or(0)));
                    }
                    Err((k, d)) => r.violate(format!("{}/{}", k, rp.name), d, replay()),
                }
                // retransmissions: byte-for-byte the first packet
                if !indication && !rp.cfg.reliable() && method == 1 && li % 5 == 0 {
                    let first = outs[0].clone();
                    let mut guard = 0;
                    while run.w.reqs.last().map(|q| q.awaiting()).unwrap_or(false) && guard < 8 {
                        guard += 1;
                        let t = run.w.awaiting().iter().map(|i| run.w.reqs[*i].pending_deadline()).min().unwrap();
                        let at = t.max(run.w.now);
                        let o = explore::step(&mut run, &Event::TimerAt(at), None);
                        r.transitions += 1;
                        let me = run.w.reqs.len() - 1;
                        for e in &o.events {
                            if let OEv::Out { who: Who::Req(i), bytes } = e {
                                if *i == me {
                                    if bytes != &first {
                                        r.violate(format!("retransmission-differs/{}", rp.name), "", replay());
                                    } else {
                                        r.sym("retransmission-identical");
                                    }
                                }
                            }
                        }
                    }
                }
            }
        }
        if chunk.first().map(|c| c.1) == Some(256) {
            let (ri, li) = chunk[3];
            r.sample(json!({"state": all_reps[ri].name, "config": all_reps[ri].cfg.show(), "application_attributes": apps[li].iter().map(|a| a.show()).collect::<Vec<_>>()}));
        }
        shared.merge(r);
    });
    let mut rep = shared.into_inner();
    rep.add_extra("application_lists", n_lists as u64);
    rep.add_extra("credential_state_representatives", n_reps as u64);
    crate::util::finish(
        ctx,
        rep,
        Finish {
            level: "model_checking",
            rule: format!("{} application attribute lists (every sequence of length <= {} over a 12-entry alphabet, plus 1,080 lists built by add and remove - three ordinary attributes of distinct types in every order, one removed, one of six values added: two SOFTWARE values, PRIORITY, and pre-populated USERNAME / REALM / NONCE / USERHASH / PASSWORD-ALGORITHM / PASSWORD-ALGORITHMS / MESSAGE-INTEGRITY / MESSAGE-INTEGRITY-SHA256 / FINGERPRINT) x {} credential-state representatives (18 states reached by replaying short histories on the real client: no mechanism; short-term unlearned / still unlearned after a refused MI / SHA256 response (same attribute kinds as the unlearned client) / learned MI / learned SHA256 / configured MI / SHA256; long-term first request / retry after plain 401 / retry after cookie 401 with anonymity and algorithms / the same with unassigned feature bits set in the cookie / subsequent MD5 / subsequent SHA256 / subsequent SHA256 after a refused 438 (wrong integrity: nonce and attribute kinds as before it) / retry after 438 / retry after a second 401 naming the realm in another letter case / subsequent request after a second 401 for another realm; each x fingerprint on/off x both transports; the credential states again with a 70-byte user name / 129-byte password and with a non-ASCII user name / a password that OpaqueString enforcement rewrites) x {{request, indication}} (methods 0x003 and 0xFFF on a subset in the quick tier); every emitted packet is parsed by the independent TLV reader: class / method / fresh id, application attributes first (one per type, first-insertion position, last value), then only the mechanism's credential attributes with the client's (not the application's) values, then at most one MI, SHA256, FINGERPRINT in that order, each verifying under the configured credentials by independent HMAC / CRC, no type twice, FINGERPRINT last when configured; retransmissions along timer runs are byte-identical; clients built with the optional builder calls in each of the six orders (limits 1 and 10) behave alike in every credential state; the largest packets: in every credential state, requests and indications carrying an UNKNOWN-ATTRIBUTES of n codes (alone or after a 4-byte SOFTWARE) with n swept so that the packet size runs through the last 48 bytes up to the largest STUN message (65,552 bytes) and beyond, into a 70,000-byte buffer - emitted whole and well-formed up to 65,552 bytes, refused without a packet beyond", n_lists, max_len, n_reps),
            assumptions: vec!["which credential attributes each long-term state requires is C08's question; C13 checks form, replacement and verification".into()],
            required_symbols: vec!["no-mechanism", "short-term/unlearned", "short-term/learned-SHA256", "long-term/first-request", "long-term/retry-after-401-cookie", "long-term/subsequent-SHA256", "long-term/retry-after-438", "long-term-indication-refused", "retransmission-identical", "client-builder-routes", "largest-packets", "beyond-the-largest-packet-refused"],
            min_outcomes: 12,
            exhaustive: true,
            bounds: json!({"max_list_len": max_len, "alphabet": 12, "representatives": n_reps}),
        },
    )
}
