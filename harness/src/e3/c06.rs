//! C06 Requests are retransmitted on the RFC 8489 schedule and fail at the deadline.

use super::explore::{self, bfs, Event, Monitor, Step, Target, TimeDetail};
use super::server::{RClass, Reply};
use super::world::{CallRes, Cfg, FinalKind, Mech, OEv, Reason, Transport, Who, World, MS};
use crate::refs::codec::L;
use crate::util::{Finish, Report, RunCtx, Shared};
use rayon::prelude::*;
use serde_json::json;
use std::sync::Arc;

#[derive(Clone)]
pub struct Mon {
    pub max_sends: usize,
    pub stagger_ms: u64,
    /// gap before every second request (the others use `stagger_ms`); 0 = always `stagger_ms`
    pub stagger2_ms: u64,
    pub with_reply: bool,
    pub detail: TimeDetail,
    /// per request: (transmissions, finals) before the current step
    before: Vec<(usize, usize)>,
    /// independent RFC 6298 estimate fed by the observed history (samples of requests completed without retransmission,
    /// reset after more than 600 s without a request): the interval every new request must run on
    reference: Option<super::c15::Ref6298>,
    last_request_at: Option<u64>,
}

impl Mon {
    pub fn new(max_sends: usize, stagger_ms: u64, with_reply: bool, detail: TimeDetail) -> Mon {
        Mon { max_sends, stagger_ms, stagger2_ms: 0, with_reply, detail, before: vec![], reference: None, last_request_at: None }
    }
}

fn slot_name(k: usize) -> String {
    format!("S{}", k)
}

impl Monitor for Mon {
    fn fresh(&self) -> Box<dyn Monitor> {
        let mut m = Mon::new(self.max_sends, self.stagger_ms, self.with_reply, self.detail);
        m.stagger2_ms = self.stagger2_ms;
        Box::new(m)
    }
    fn needs_snapshots(&self) -> bool {
        true
    }
    fn on_step(&mut self, w: &World, st: &Step, rep: Option<(&mut Report, &[Event])>) {
        let before = std::mem::take(&mut self.before);
        self.before = w.reqs.iter().map(|r| (r.tx_times.len(), r.finals.len())).collect();
        // ---- independent estimate of the interval a new request runs on (bookkeeping also while replaying) ----
        let mut interval_verdict: Option<(usize, f64, f64)> = None;
        if let Transport::Unreliable { rto_ms, gran_ms, .. } = w.cfg.transport {
            let reference = self.reference.get_or_insert_with(|| super::c15::Ref6298::new((rto_ms * MS) as f64, (gran_ms * MS) as f64));
            if let (Event::Send { .. }, CallRes::SendOk(i)) = (st.ev, &st.obs.res) {
                if let Some(prev) = self.last_request_at {
                    if w.now - prev > 600_000 * MS {
                        reference.reset();
                    }
                }
                self.last_request_at = Some(w.now);
                interval_verdict = Some((*i, w.reqs[*i].rto_ns as f64, reference.rto));
            }
            for (i, r) in w.reqs.iter().enumerate() {
                let (tx_b, fin_b) = before.get(i).copied().unwrap_or((0, 0));
                if fin_b == 0 && !r.finals.is_empty() && matches!(r.finals[0].1, FinalKind::Delivered(_) | FinalKind::Retry) && tx_b == 1 && r.tx_times.len() == 1 && w.now > r.t0 {
                    reference.sample((w.now - r.t0) as f64);
                }
            }
        }
        let Some((rep, hist)) = rep else { return };
        let replay = || explore::history_replay(w, hist, st.obs);
        if let CallRes::Panic(p) = &st.obs.res {
            rep.violate(format!("client-panics/{}", crate::util::panic_site(p)), p.clone(), replay());
            return;
        }
        // reliable transport: every request, whatever happened before it (answered requests, late answers, failures), runs on
        // the CONFIGURED timeout: no retransmission slots, failure exactly at t0 + timeout
        if let (Transport::Reliable { timeout_ms }, Event::Send { .. }, CallRes::SendOk(i)) = (w.cfg.transport, st.ev, &st.obs.res) {
            let (s, d) = w.reqs[*i].schedule();
            if !s.is_empty() || d != w.reqs[*i].t0 + timeout_ms * MS {
                rep.violate(
                    format!("reliable-request-does-not-run-on-the-configured-timeout/{}", if d > w.reqs[*i].t0 + timeout_ms * MS { "too-long" } else { "too-short" }),
                    format!("T{}: {} retransmission slots, failure due t0+{} ns, configured {} ms", i, s.len(), d - w.reqs[*i].t0, timeout_ms),
                    replay(),
                );
            } else {
                rep.sym("reliable-request-on-configured-timeout");
            }
        }
        if let Some((i, got, want)) = interval_verdict {
            if (got - want).abs() > 1e-5 * want + 1000.0 {
                rep.violate(
                    format!("request-runs-on-an-interval-other-than-the-rfc6298-estimate/{}", if got > want { "too-long" } else { "too-short" }),
                    format!("T{}: client {} ns, independent estimate {:.1} ns", i, got, want),
                    replay(),
                );
            } else {
                rep.sym("initial-interval-matches-independent-estimate");
            }
        }
        let t = w.now;
        let is_timer = matches!(st.ev, Event::Timer | Event::TimerAt(_));
        let is_send = matches!(st.ev, Event::Send { .. });
        for (i, r) in w.reqs.iter().enumerate() {
            let (tx_b, fin_b) = before.get(i).copied().unwrap_or((0, 0));
            let new_tx = r.tx_times.len() - tx_b;
            let new_fin = r.finals.len() - fin_b;
            let (s, d) = r.schedule();
            let was_awaiting = fin_b == 0 && i < before.len();
            let reliable = w.cfg.reliable();
            if tx_b == 0 {
                // the call that created it: exactly one transmission, in send_request
                if !is_send || new_tx != 1 {
                    rep.violate("first-transmission", format!("T{}: {} packets in {:?}", i, new_tx, st.ev.show()), replay());
                }
                continue;
            }
            if new_tx > 0 && !is_timer {
                rep.violate("transmission-outside-a-timer-call", format!("T{} in {}", i, st.ev.show()), replay());
                continue;
            }
            if new_tx > 1 {
                rep.violate("several-transmissions-in-one-timer-call", format!("T{}: {}", i, new_tx), replay());
                continue;
            }
            if new_tx == 1 {
                let last_tx = r.tx_times[r.tx_times.len() - 2];
                // byte-identical copies
                let copy = st.obs.events.iter().find_map(|e| match e {
                    OEv::Out { who: Who::Req(j), bytes } if *j == i => Some(bytes),
                    _ => None,
                });
                if copy.map(|b| b != &r.first).unwrap_or(true) {
                    rep.violate("retransmission-differs-from-first-copy", format!("T{}", i), replay());
                }
                if r.tx_times.len() > r.rc as usize {
                    rep.violate("more-than-Rc-transmissions", format!("T{}: {} > Rc {}", i, r.tx_times.len(), r.rc), replay());
                }
                if t >= d {
                    rep.violate("retransmission-at-or-after-deadline", format!("T{} at {} ns, deadline {} ns", i, t - r.t0, d - r.t0), replay());
                } else if !s.iter().any(|p| *p > last_tx && *p <= t) {
                    let next = s.iter().position(|p| *p > last_tx).map(|k| slot_name(k + 1)).unwrap_or_else(|| "none".into());
                    rep.violate(
                        format!("retransmission-before-its-slot/next-slot={}", next),
                        format!("T{} retransmitted at t0+{} ns, last transmission t0+{} ns, slots {:?}", i, t - r.t0, last_tx - r.t0, s.iter().map(|p| p - r.t0).collect::<Vec<_>>()),
                        replay(),
                    );
                } else {
                    rep.sym(if s.iter().filter(|p| **p > last_tx && **p <= t).count() > 1 { "late-call-skipped-slots" } else { "retransmitted-in-slot" });
                }
                if reliable {
                    rep.violate("retransmission-on-reliable-transport", format!("T{}", i), replay());
                }
            }
            if is_timer && was_awaiting {
                let last_tx_before = r.tx_times[tx_b - 1];
                let slot_open = s.iter().any(|p| *p > last_tx_before && *p <= t);
                if t >= d {
                    // the first timer call at or after the deadline reports the failure and does not retransmit
                    match r.finals.first() {
                        Some((_, FinalKind::Failed(Reason::TimedOut))) | Some((_, FinalKind::Failed(Reason::ProtectionViolated))) if new_fin >= 1 => {
                            rep.sym("failed-at-deadline");
                        }
                        _ => rep.violate(
                            "no-failure-at-first-timer-call-at-or-after-deadline",
                            format!("T{} timer at t0+{} ns, deadline t0+{} ns, finals {:?}", i, t - r.t0, d - r.t0, r.finals),
                            replay(),
                        ),
                    }
                } else {
                    if new_fin > 0 {
                        if let Some((_, FinalKind::Failed(why))) = r.finals.first() {
                            rep.violate(
                                format!("failed-before-deadline/{:?}", why),
                                format!("T{} failed at t0+{} ns, deadline t0+{} ns", i, t - r.t0, d - r.t0),
                                replay(),
                            );
                        }
                    }
                    if slot_open && new_tx == 0 && new_fin == 0 {
                        rep.violate(
                            "no-retransmission-although-a-slot-has-passed",
                            format!("T{} timer at t0+{} ns, last transmission t0+{} ns, slots {:?}", i, t - r.t0, last_tx_before - r.t0, s.iter().map(|p| p - r.t0).collect::<Vec<_>>()),
                            replay(),
                        );
                    }
                    if !slot_open && new_tx == 0 {
                        rep.sym("early-call-no-retransmission");
                    }
                }
            }
        }
    }
    fn key(&self, w: &World) -> String {
        // transmissions so far per awaiting request, relative to now
        let v: Vec<String> = w
            .reqs
            .iter()
            .filter(|r| r.awaiting())
            .map(|r| format!("{}:{}:{}", r.tx_times.len(), w.now - r.t0, r.rto_ns))
            .collect();
        format!("{:?}|{}", v, w.reqs.len())
    }
    fn enabled(&self, w: &World) -> Vec<Event> {
        let mut v = vec![];
        if w.reqs.is_empty() {
            v.push(Event::Send { app: 0 });
            return v;
        }
        if w.reqs.len() < self.max_sends {
            // the next request starts `stagger` after the previous one, or right after it finished
            let gap = if self.stagger2_ms > 0 && w.reqs.len() % 2 == 0 { self.stagger2_ms } else { self.stagger_ms };
            let t = w.reqs.last().unwrap().t0 + gap * MS;
            if w.now == t || w.awaiting().is_empty() {
                v.push(Event::Send { app: 0 });
            } else if w.now < t {
                v.push(Event::AdvanceTo(t));
            }
        }
        if !w.awaiting().is_empty() {
            for t in explore::time_reps(w, self.detail) {
                v.push(Event::TimerAt(t));
            }
            v.push(Event::Timer);
            if self.with_reply {
                // a response 7 ms after the first transmission feeds the estimator (learned RTO for the next request)
                for i in w.awaiting() {
                    if w.reqs[i].tx_times.len() == 1 && w.now == w.reqs[i].t0 {
                        v.push(Event::AdvanceTo(w.now + 7 * MS));
                    }
                    if w.now == w.reqs[i].t0 + 7 * MS {
                        v.push(Event::Deliver { to: Target::Req(i), reply: Reply::plain(RClass::Success) });
                    }
                }
            }
        }
        v
    }
    fn on_end(&mut self, w: &World, stranded: bool, rep: Option<(&mut Report, &[Event])>) {
        let Some((rep, hist)) = rep else { return };
        if stranded {
            rep.violate("run-ends-with-a-request-still-awaiting", "", json!({"config": w.cfg.show(), "events": explore::show_history(hist)}));
        }
    }
}

fn default_schedule(rep: &mut Report, apps: &Arc<Vec<Vec<L>>>) {
    // defaults: transmissions at 0, 500, 1500, 3500, 7500, 15500, 31500 ms and failure at 39500 ms
    let cfg = Cfg { transport: Transport::Unreliable { rto_ms: 500, gran_ms: 1, rm: 16, rc: 7 }, mech: Mech::None, fingerprint: false, max_tx: 10, cred: 0, method: 1 };
    let proto = Mon::new(1, 0, false, TimeDetail::Coarse);
    let mut run = explore::start(&cfg, apps, &proto);
    let mut hist = vec![];
    let mut go = |run: &mut explore::Run, hist: &mut Vec<Event>, ev: Event, rep: &mut Report| {
        hist.push(ev.clone());
        let h = hist.clone();
        explore::step(run, &ev, Some((rep, &h)))
    };
    let mut obs = go(&mut run, &mut hist, Event::Send { app: 0 }, rep);
    let mut guard = 0;
    while run.w.reqs[0].awaiting() && guard < 20 {
        guard += 1;
        let Some(ns) = obs.events.iter().find_map(|e| if let OEv::Rto { ns, .. } = e { Some(*ns) } else { None }) else { break };
        let at = run.w.now + ns;
        obs = go(&mut run, &mut hist, Event::TimerAt(at), rep);
    }
    let tx: Vec<u64> = run.w.reqs[0].tx_times.iter().map(|t| t / MS).collect();
    let fail = run.w.reqs[0].finals.first().map(|f| (f.0 / MS, f.1.clone()));
    rep.eval();
    if tx != vec![0, 500, 1500, 3500, 7500, 15500, 31500] || fail != Some((39500, FinalKind::Failed(Reason::TimedOut))) {
        rep.violate("default-schedule", format!("transmissions at {:?} ms, final {:?}", tx, fail), json!({"config": cfg.show(), "events": explore::show_history(&hist)}));
    } else {
        rep.sym("default-schedule-0-500-1500-3500-7500-15500-31500-fail-39500");
        rep.sample(json!({"config": cfg.show(), "transmissions_ms": tx, "failure_ms": 39500}));
    }
}

pub fn run(ctx: &RunCtx) -> i32 {
    let thorough = ctx.thorough();
    let apps: Arc<Vec<Vec<L>>> = Arc::new(vec![vec![]]);
    let shared = Shared::new();
    // (configuration, requests, stagger, learned-RTO scenario, depth, time detail)
    let mut jobs: Vec<(Cfg, usize, u64, bool, usize, TimeDetail)> = vec![];
    let rcs: Vec<u32> = (1..=10).collect();
    let rtos: Vec<u64> = if thorough { vec![1, 37, 100, 500, 3000, 70_000] } else { vec![1, 37, 100, 500, 70_000] };
    let rms: Vec<u32> = if thorough { vec![1, 2, 3, 7, 15, 16, 17, 32] } else { vec![1, 2, 3, 16, 17, 32] };
    for rto in rtos {
        for rc in &rcs {
            for rm in rms.clone() {
                for gran in [1u64, 10, 2000] {
                    let cfg = Cfg { transport: Transport::Unreliable { rto_ms: rto, gran_ms: gran, rm, rc: *rc }, mech: Mech::None, fingerprint: false, max_tx: 10, cred: 0, method: 1 };
                    let depth = *rc as usize + 4;
                    jobs.push((cfg, 1, 0, false, depth, TimeDetail::Fine));
                }
            }
        }
    }
    for t in [100u64, 39500] {
        let cfg = Cfg { transport: Transport::Reliable { timeout_ms: t }, mech: Mech::None, fingerprint: false, max_tx: 10, cred: 0, method: 1 };
        jobs.push((cfg.clone(), 2, 30, false, 6, TimeDetail::Fine));
        // ... and with answers in between (a response 7 ms after the request; the next request starts when the previous one
        // has finished or 30 ms after it)
        jobs.push((cfg, 3, 30, true, 8, TimeDetail::Coarse));
    }
    // a one-slot table and a late controller: the second request is attempted after the first one's final deadline without a
    // timer call in between (it is refused, or - if the client finishes overdue requests first - the failure is reported);
    // the first request still fails at the first timer call at or after its deadline
    for (t, st) in [(Transport::Unreliable { rto_ms: 100, gran_ms: 1, rm: 2, rc: 2 }, 400u64), (Transport::Reliable { timeout_ms: 100 }, 150)] {
        let cfg = Cfg { transport: t, mech: Mech::None, fingerprint: false, max_tx: 1, cred: 0, method: 1 };
        jobs.push((cfg, 2, st, false, 7, TimeDetail::Coarse));
    }
    // two, three and four requests sharing the timer, started `stagger` ms apart
    let staggers: Vec<u64> = if thorough { vec![1, 30, 137] } else { vec![30, 137] };
    let multi: Vec<(u64, u32, u32)> = if thorough {
        vec![(100, 3, 2), (100, 2, 16), (37, 3, 1), (37, 5, 3), (500, 4, 32), (100, 7, 16)]
    } else {
        vec![(100, 3, 2), (100, 2, 16), (37, 3, 1), (37, 5, 3)]
    };
    for (rto, rc, rm) in multi {
        let cfg = Cfg { transport: Transport::Unreliable { rto_ms: rto, gran_ms: 1, rm, rc }, mech: Mech::None, fingerprint: false, max_tx: 10, cred: 0, method: 1 };
        for st in &staggers {
            jobs.push((cfg.clone(), 2, *st, false, if thorough { 14 } else { 11 }, TimeDetail::Fine));
            jobs.push((cfg.clone(), 3, *st, false, if thorough { 13 } else { 10 }, if thorough { TimeDetail::Medium } else { TimeDetail::Coarse }));
            jobs.push((cfg.clone(), 4, *st, false, if thorough { 12 } else { 10 }, TimeDetail::Coarse));
        }
        // staggers that make two requests share a deadline exactly: differences between two points of the schedule
        // (retransmission instants and the final deadline), so that equal expiry instants meet in the shared timer
        {
            let mut pts: Vec<u64> = (0..rc).map(|k| ((1u64 << k) - 1) * rto).collect();
            pts.push(((1u64 << (rc - 1)) - 1 + rm as u64) * rto);
            let mut ties = std::collections::BTreeSet::new();
            for a in &pts {
                for b in &pts {
                    if a > b {
                        ties.insert(a - b);
                    }
                }
            }
            let ties: Vec<u64> = ties.into_iter().collect();
            let take = if thorough { 10 } else { 4 };
            for st in ties.into_iter().take(take) {
                jobs.push((cfg.clone(), 2, st, false, if thorough { 13 } else { 10 }, TimeDetail::Medium));
                jobs.push((cfg.clone(), 3, st, false, if thorough { 12 } else { 9 }, TimeDetail::Coarse));
            }
        }
        // learned RTO: first transaction answered after 7 ms, the next one runs on the learned interval
        jobs.push((cfg, 2, 40, true, if thorough { 13 } else { 10 }, TimeDetail::Fine));
    }
    // histories before the request under test: answered requests and pauses on either side of the 600 s staleness limit
    // (learn - pause - learn again - send, and the other alternations), four requests, the interval of each compared with
    // the independent RFC 6298 estimate and its schedule with the monitor
    {
        let hist_jobs: Vec<(u64, u32, u32, u64, u64)> = vec![(100, 3, 2, 601_000, 40), (100, 3, 2, 40, 601_000), (500, 2, 16, 601_000, 1_000), (100, 3, 2, 601_000, 601_000)];
        hist_jobs.par_iter().for_each(|(rto, rc, rm, s1, s2)| {
            let cfg = Cfg { transport: Transport::Unreliable { rto_ms: *rto, gran_ms: 1, rm: *rm, rc: *rc }, mech: Mech::None, fingerprint: false, max_tx: 10, cred: 0, method: 1 };
            let mut mon = Mon::new(4, *s1, true, TimeDetail::Coarse);
            mon.stagger2_ms = *s2;
            let mut r = Report::new();
            let st = bfs(&cfg, &apps, &mon, if thorough { 15 } else { 14 }, if thorough { 1_000_000 } else { 400_000 }, &mut r);
            r.states = st.states;
            r.transitions = st.transitions;
            r.sym("history-before-the-request");
            shared.merge(r);
        });
    }
    let per: Vec<_> = jobs
        .par_iter()
        .map(|(cfg, n, stagger, learned, depth, detail)| {
            let mut r = Report::new();
            let st = bfs(cfg, &apps, &Mon::new(*n, *stagger, *learned, *detail), *depth, if thorough { 3_000_000 } else { 400_000 }, &mut r);
            r.states = st.states;
            r.transitions = st.transitions;
            r.sym("bfs-configs");
            if *learned {
                r.sym("learned-rto-scenarios");
            }
            shared.merge(r);
            json!({"config": cfg.show(), "requests": n, "depth": st.depth_completed, "states": st.states, "transitions": st.transitions})
        })
        .collect();
    {
        let mut r = Report::new();
        default_schedule(&mut r, &apps);
        // defaults under the deviation-bounded driver (late / early / very late timers, lost and late replies)
        let cfg = Cfg { transport: Transport::Unreliable { rto_ms: 500, gran_ms: 1, rm: 16, rc: 7 }, mech: Mech::None, fingerprint: false, max_tx: 10, cred: 0, method: 1 };
        let n = super::devrun::explore(&cfg, &apps, &Mon::new(3, 0, false, TimeDetail::Coarse), if thorough { 4 } else { 3 }, &mut r);
        r.add_extra("deviation_bounded_executions", n);
        for (rc, rm) in [(10u32, 32u32), (4, 3)] {
            let cfg = Cfg { transport: Transport::Unreliable { rto_ms: 100, gran_ms: 1, rm, rc }, mech: Mech::None, fingerprint: false, max_tx: 10, cred: 0, method: 1 };
            let n = super::devrun::explore(&cfg, &apps, &Mon::new(3, 0, false, TimeDetail::Coarse), if thorough { 3 } else { 2 }, &mut r);
            r.add_extra("deviation_bounded_executions", n);
        }
        r.sym("deviation-runs");
        shared.merge(r);
    }
    let mut rep = shared.into_inner();
    rep.extra.insert("per_config".into(), json!(per));
    crate::util::finish(
        ctx,
        rep,
        Finish {
            level: "model_checking",
            rule: format!("breadth-first exploration of the real client over timer calls at every region representative (each schedule point S_k and the deadline D: -1 ms, exact, +1 ms, midpoints, beyond all deadlines, and 'now') for {} jobs: RTO {{1,37,100,500,70000 (thorough +3000)}} ms x Rc {:?} x Rm {{1,2,3,16,17,32 (thorough +7,15)}} x granularity {{1,10,2000}} ms with one request run to completion; reliable 100 ms / 39.5 s (two requests; three requests with answers in between: every request on reliable transport must run on the configured timeout - no slots, failure at t0 + timeout - whatever was answered before); a one-slot table with the second request attempted after the first one's final deadline and before any timer call; 2, 3 and 4 requests started 30 / 137 (thorough also 1) ms apart sharing the timer; learned-RTO scenarios (first transaction answered after 7 ms, next request runs on the learned interval) and four-request histories alternating answered requests with pauses of 40 ms / 1 s / 601 s; the interval of every new request is compared with an independent double-precision RFC 6298 estimate fed by the observed history (samples of requests completed without retransmission, reset after more than 600 s without a request); the default configuration driven by the announced durations must give 0/500/1500/3500/7500/15500/31500 and failure at 39500 ms; deviation-bounded runs (<= {} deviations) on the defaults and on Rc 10 / Rm 32. Monitor in integer nanoseconds: first copy in send_request, further copies only in timer calls, one per call, byte-identical, each consuming a schedule point in (last transmission, now], never at or after D, at most Rc; a timer call with an open slot before D does retransmit; failure exactly in the first timer call at or after D", jobs.len(), rcs, if thorough { 4 } else { 3 }),
            assumptions: vec!["RTO_i is the interval recorded for the transaction at send time (H1); whether it is the right estimate is C15's question".into(), "region representatives instead of all instants".into()],
            required_symbols: vec!["bfs-configs", "retransmitted-in-slot", "late-call-skipped-slots", "failed-at-deadline", "early-call-no-retransmission", "learned-rto-scenarios", "history-before-the-request", "initial-interval-matches-independent-estimate", "deviation-runs", "default-schedule-0-500-1500-3500-7500-15500-31500-fail-39500"],
            min_outcomes: 5,
            exhaustive: true,
            bounds: json!({"jobs": jobs.len()}),
        },
    )
}
