//! C05 Each request gets at most one final outcome and then falls silent.

use super::explore::{self, bfs, Event, Monitor, Step, Target, TimeDetail};
use super::server::{Chal, NonceKind, PasKind, RClass, RFp, RMac, Reply};
use super::world::{CallRes, Cfg, FinalKind, Mech, OEv, Transport, Who, World};
use crate::refs::codec::L;
use crate::util::{Finish, Report, RunCtx, Shared};
use rayon::prelude::*;
use serde_json::json;
use std::sync::Arc;

/// replies that the configured mechanism should accept / reject
pub fn reply_menu(cfg: &Cfg) -> Vec<Reply> {
    let fp = if cfg.fingerprint { super::server::RFp::Valid } else { super::server::RFp::Absent };
    reply_menu_plain(cfg).into_iter().map(|r| r.with_fp(fp)).collect()
}

/// an acceptable response that additionally carries an attribute of an unknown comprehension-required type (whatever the
/// client makes of it - deliver it, fail the transaction - it is ONE final outcome)
pub fn reply_with_unknown_required(cfg: &Cfg) -> Reply {
    let fp = if cfg.fingerprint { RFp::ValidWithUnknownRequired } else { RFp::AbsentWithUnknownRequired };
    reply_menu(cfg)[if matches!(cfg.mech, Mech::LongTerm) { 1 } else { 0 }].with_fp(fp)
}

fn reply_menu_plain(cfg: &Cfg) -> Vec<Reply> {
    let ok = Reply::plain(RClass::Success);
    let err = Reply::plain(RClass::Error(400));
    match cfg.mech {
        Mech::None => vec![ok, err],
        Mech::ShortTerm(Some(true)) => vec![ok.with_mac(RMac::Sha), err.with_mac(RMac::Sha), ok.with_mac(RMac::BadSha), ok],
        Mech::ShortTerm(_) => vec![ok.with_mac(RMac::Mi), err.with_mac(RMac::Mi), ok.with_mac(RMac::BadMi), ok],
        Mech::LongTerm => vec![
            Reply::plain(RClass::Error(401)).with_chal(Chal { realm: true, nonce: NonceKind::Plain(1), pas: PasKind::Absent, realm_v: 0, order: 0 }),
            ok.with_mac(RMac::Mi),
            ok,
            err.with_mac(RMac::Mi),
            Reply::plain(RClass::Error(438)).with_chal(Chal { realm: false, nonce: NonceKind::Plain(2), pas: PasKind::Absent, realm_v: 0, order: 0 }).with_mac(RMac::Mi),
        ],
    }
}

pub fn final_name(f: &FinalKind) -> String {
    match f {
        FinalKind::Delivered(2) => "success-delivered".into(),
        FinalKind::Delivered(_) => "error-delivered".into(),
        FinalKind::Failed(r) => format!("failed-{:?}", r),
        FinalKind::Retry => "retry".into(),
    }
}

#[derive(Clone)]
pub struct Mon {
    pub max_sends: usize,
    pub detail: TimeDetail,
    /// finals each request had before the current step
    finals_before: Vec<usize>,
    last_delivery: Option<(Target, Reply)>,
}

impl Mon {
    pub fn new(max_sends: usize, detail: TimeDetail) -> Mon {
        Mon { max_sends, detail, finals_before: vec![], last_delivery: None }
    }
}

impl Monitor for Mon {
    fn fresh(&self) -> Box<dyn Monitor> {
        Box::new(Mon::new(self.max_sends, self.detail))
    }
    fn needs_snapshots(&self) -> bool {
        true
    }
    fn on_step(&mut self, w: &World, st: &Step, rep: Option<(&mut Report, &[Event])>) {
        let before = self.finals_before.clone();
        self.finals_before = w.reqs.iter().map(|r| r.finals.len()).collect();
        if let Event::Deliver { to, reply } = st.ev {
            self.last_delivery = Some((to.clone(), *reply));
        }
        let Some((rep, hist)) = rep else { return };
        let replay = || explore::history_replay(w, hist, st.obs);
        if let CallRes::Panic(p) = &st.obs.res {
            rep.violate(format!("client-panics/{}", crate::util::panic_site(p)), p.clone(), replay());
            return;
        }
        let had_final = |i: usize| before.get(i).copied().unwrap_or(0) > 0;
        let first_final = |i: usize| w.reqs[i].finals.first().map(|f| final_name(&f.1)).unwrap_or_default();
        for e in &st.obs.events {
            let (who, kind) = match e {
                OEv::Out { who, .. } => (who, "packet"),
                OEv::Rto { who, .. } => (who, "timer-notification"),
                OEv::Retry(who) => (who, "retry"),
                OEv::Failed(who, _) => (who, "failure"),
                OEv::Recv { who, class, .. } if *class >= 2 => (who, "response-delivered"),
                OEv::Recv { .. } => continue,
            };
            match who {
                Who::Req(i) => {
                    if had_final(*i) {
                        rep.violate(format!("{}-after-final/{}", kind, first_final(*i)), format!("request T{}", i), replay());
                    }
                }
                Who::Ind(_) | Who::Other(_) => {
                    if kind != "packet" {
                        rep.violate(format!("{}-for-a-transaction-that-is-not-a-request", kind), format!("{:?}", who), replay());
                    }
                }
            }
        }
        for (i, r) in w.reqs.iter().enumerate() {
            if r.finals.len() > 1 && before.get(i).copied().unwrap_or(0) <= 1 {
                rep.violate(
                    format!("second-final-outcome/{}-then-{}", final_name(&r.finals[0].1), final_name(&r.finals[1].1)),
                    format!("request T{}", i),
                    replay(),
                );
            }
        }
        // a buffer carrying the id of a finished request must be refused without events
        if let Event::Deliver { to: Target::Req(i), reply } = st.ev {
            if had_final(*i) && !matches!(reply.class, RClass::Indication) {
                let refused = matches!(st.obs.res, CallRes::RecvErr(_));
                if !refused || !st.obs.events.is_empty() {
                    rep.violate(
                        format!("late-or-duplicate-reply-not-discarded/after-{}", first_final(*i)),
                        format!("{:?} events {:?}", st.obs.res, super::world::show_events(&st.obs.events)),
                        replay(),
                    );
                }
            }
        }
        if let Event::Deliver { to: Target::Unknown | Target::Near(..), reply } = st.ev {
            if matches!(reply.class, RClass::Success | RClass::Error(_)) && (!matches!(st.obs.res, CallRes::RecvErr(_)) || !st.obs.events.is_empty()) {
                rep.violate("reply-for-unknown-id-accepted", format!("{:?} events {:?}", st.obs.res, super::world::show_events(&st.obs.events)), replay());
            }
        }
    }
    fn key(&self, w: &World) -> String {
        let f: Vec<String> = w.reqs.iter().map(|r| r.finals.iter().map(|x| final_name(&x.1)).collect::<Vec<_>>().join("+")).collect();
        format!("{:?}|{:?}", f, self.last_delivery)
    }
    fn enabled(&self, w: &World) -> Vec<Event> {
        let mut v = vec![];
        if w.reqs.len() < self.max_sends {
            v.push(Event::Send { app: 0 });
        }
        if !w.awaiting().is_empty() || !w.snapshot().timeouts.is_empty() {
            v.push(Event::Timer);
            for t in explore::time_reps(w, self.detail) {
                if !w.just_advanced {
                    v.push(Event::AdvanceTo(t));
                }
            }
        }
        let menu = reply_menu(&w.cfg);
        // every awaiting request and the most recently finished one
        let mut targets: Vec<usize> = w.awaiting();
        if let Some(last_fin) = (0..w.reqs.len()).rev().find(|i| !w.reqs[*i].awaiting()) {
            targets.push(last_fin);
        }
        for i in targets {
            for r in &menu {
                v.push(Event::Deliver { to: Target::Req(i), reply: *r });
            }
        }
        if !w.reqs.is_empty() {
            v.push(Event::Deliver { to: Target::Unknown, reply: menu[0] });
        }
        if let Some(i) = w.awaiting().first() {
            v.push(Event::Deliver { to: Target::Req(*i), reply: reply_with_unknown_required(&w.cfg) });
        }
        // non-responses carrying an outstanding id, and a send that fails for lack of buffer space
        v.extend(explore::id_tie_events(w));
        if w.reqs.len() < self.max_sends && !w.just_advanced {
            v.push(Event::SendTiny { app: 0, cap: 16 });
        }
        v
    }
}

pub fn configs(thorough: bool) -> Vec<Cfg> {
    let mut v = vec![];
    let transports = [Transport::Unreliable { rto_ms: 100, gran_ms: 1, rm: 2, rc: 3 }, Transport::Reliable { timeout_ms: 300 }];
    let mechs: Vec<Mech> = if thorough {
        vec![Mech::None, Mech::ShortTerm(None), Mech::ShortTerm(Some(false)), Mech::ShortTerm(Some(true)), Mech::LongTerm]
    } else {
        vec![Mech::None, Mech::ShortTerm(None), Mech::ShortTerm(Some(false)), Mech::LongTerm]
    };
    for t in transports {
        for m in &mechs {
            v.push(Cfg { transport: t, mech: *m, fingerprint: false, max_tx: 10, cred: 0, method: 1 });
        }
    }
    // methods whose bits reach into every part of the interleaved type field (the class bits sit between method bits)
    v.push(Cfg { transport: transports[0], mech: Mech::None, fingerprint: false, max_tx: 10, cred: 0, method: 0x080 });
    v.push(Cfg { transport: transports[1], mech: Mech::ShortTerm(None), fingerprint: true, max_tx: 10, cred: 0, method: 0xFFF });
    if thorough {
        v.push(Cfg { transport: transports[0], mech: Mech::LongTerm, fingerprint: false, max_tx: 10, cred: 0, method: 0x100 });
        v.push(Cfg { transport: transports[1], mech: Mech::None, fingerprint: false, max_tx: 10, cred: 0, method: 0xA5A });
    }
    v
}

pub fn run(ctx: &RunCtx) -> i32 {
    let thorough = ctx.thorough();
    let apps: Arc<Vec<Vec<L>>> = Arc::new(vec![vec![]]);
    let shared = Shared::new();
    let depth = if thorough { 10 } else { 8 };
    let cfgs = configs(thorough);
    let totals: Vec<(u64, u64, usize)> = cfgs
        .par_iter()
        .map(|cfg| {
            let mut r = Report::new();
            let mon = Mon::new(2, TimeDetail::Medium);
            let st = bfs(cfg, &apps, &mon, depth, if thorough { 2_500_000 } else { 1_500_000 }, &mut r);
            r.states = st.states;
            r.transitions = st.transitions;
            r.sym("bfs-configs");
            shared.merge(r);
            (st.states, st.transitions, st.depth_completed)
        })
        .collect();
    // three concurrent requests, coarse time, shallower
    let cfg3 = Cfg { transport: Transport::Unreliable { rto_ms: 100, gran_ms: 1, rm: 2, rc: 2 }, mech: Mech::None, fingerprint: false, max_tx: 10, cred: 0, method: 1 };
    {
        let mut r = Report::new();
        let st = bfs(&cfg3, &apps, &Mon::new(3, TimeDetail::Coarse), if thorough { 9 } else { 7 }, 1_500_000, &mut r);
        r.states = st.states;
        r.transitions = st.transitions;
        shared.merge(r);
    }
    // deviation-bounded run-to-completion on the default configuration (replies after the 39.5 s failure etc.)
    {
        let mut r = Report::new();
        for mech in [Mech::None, Mech::ShortTerm(Some(false))] {
            let cfg = Cfg { transport: Transport::Unreliable { rto_ms: 500, gran_ms: 1, rm: 16, rc: 7 }, mech, fingerprint: false, max_tx: 10, cred: 0, method: 1 };
            let n = super::devrun::explore(&cfg, &apps, &Mon::new(3, TimeDetail::Coarse), if thorough { 4 } else { 3 }, &mut r);
            r.add_extra("deviation_bounded_executions", n);
        }
        r.sym("deviation-runs");
        shared.merge(r);
    }
    // look-alike ids: two requests outstanding; a response whose id is one of the 12 look-alikes (explore::near_id) of an
    // outstanding id is a response to nothing - refused, no event - and the genuine response to that request is then still
    // delivered, exactly once
    {
        let lcfgs = vec![
            Cfg { transport: Transport::Unreliable { rto_ms: 100, gran_ms: 1, rm: 2, rc: 2 }, mech: Mech::None, fingerprint: false, max_tx: 10, cred: 0, method: 1 },
            Cfg { transport: Transport::Reliable { timeout_ms: 300 }, mech: Mech::ShortTerm(Some(false)), fingerprint: true, max_tx: 10, cred: 0, method: 1 },
        ];
        lcfgs.par_iter().for_each(|cfg| {
            let mut r = Report::new();
            let ok = reply_menu(cfg)[0];
            for k in 0..explore::NEAR_KINDS {
                for which in [0usize, 1] {
                    let proto = Mon::new(3, TimeDetail::Coarse);
                    let mut run = explore::start(cfg, &apps, &proto);
                    let mut hist: Vec<Event> = vec![];
                    let mut go = |run: &mut explore::Run, hist: &mut Vec<Event>, ev: Event, r: &mut Report| {
                        hist.push(ev.clone());
                        let h = hist.clone();
                        explore::step(run, &ev, Some((r, &h)))
                    };
                    go(&mut run, &mut hist, Event::Send { app: 0 }, &mut r);
                    go(&mut run, &mut hist, Event::Send { app: 0 }, &mut r);
                    go(&mut run, &mut hist, Event::Deliver { to: Target::Near(which, k), reply: ok }, &mut r);
                    let o = go(&mut run, &mut hist, Event::Deliver { to: Target::Req(which), reply: ok }, &mut r);
                    if !o.events.iter().any(|e| matches!(e, OEv::Recv { who: Who::Req(i), .. } if *i == which)) {
                        r.violate(
                            "genuine-response-not-delivered-after-a-lookalike-id",
                            format!("look-alike kind {} of T{}: {:?} {:?}", k, which, o.res, super::world::show_events(&o.events)),
                            json!({"config": cfg.show(), "events": explore::show_history(&hist), "history": hist}),
                        );
                    }
                    go(&mut run, &mut hist, Event::Redeliver(usize::MAX), &mut r);
                    go(&mut run, &mut hist, Event::TimerAt(3_600_000 * super::world::MS), &mut r);
                    r.transitions += hist.len() as u64;
                    r.states += hist.len() as u64;
                }
            }
            r.sym("lookalike-ids");
            shared.merge(r);
        });
    }
    // every error code: one request answered by an error response with each code 300..=699 (authenticated as the mechanism
    // wants it; 401 / 438 under long-term credentials as challenges), then the same buffer again, then a timer call far in the
    // future - whatever the code, the request has exactly one final outcome
    {
        let mut ecfgs = vec![];
        for t in [Transport::Unreliable { rto_ms: 100, gran_ms: 1, rm: 2, rc: 2 }, Transport::Reliable { timeout_ms: 300 }] {
            for (m, f) in [(Mech::None, false), (Mech::None, true), (Mech::ShortTerm(Some(false)), false), (Mech::ShortTerm(None), true), (Mech::LongTerm, false)] {
                ecfgs.push(Cfg { transport: t, mech: m, fingerprint: f, max_tx: 10, cred: 0, method: 1 });
            }
        }
        ecfgs.par_iter().for_each(|cfg| {
            let mut r = Report::new();
            let fp = if cfg.fingerprint { RFp::Valid } else { RFp::Absent };
            let mac = match cfg.mech {
                Mech::None => RMac::None,
                _ => RMac::Mi,
            };
            let chal = |n: u8| Chal { realm: true, nonce: NonceKind::Plain(n), pas: PasKind::Absent, realm_v: 0, order: 0 };
            for code in 300u16..=699 {
                let proto = Mon::new(3, TimeDetail::Coarse);
                let mut run = explore::start(cfg, &apps, &proto);
                let mut hist: Vec<Event> = vec![];
                let mut go = |run: &mut explore::Run, hist: &mut Vec<Event>, ev: Event, r: &mut Report| {
                    hist.push(ev.clone());
                    let h = hist.clone();
                    explore::step(run, &ev, Some((r, &h)))
                };
                go(&mut run, &mut hist, Event::Send { app: 0 }, &mut r);
                if matches!(cfg.mech, Mech::LongTerm) {
                    go(&mut run, &mut hist, Event::Deliver { to: Target::Req(0), reply: Reply::plain(RClass::Error(401)).with_chal(chal(1)).with_fp(fp) }, &mut r);
                    go(&mut run, &mut hist, Event::Send { app: 0 }, &mut r);
                }
                let i = run.w.reqs.len() - 1;
                let mut reply = Reply::plain(RClass::Error(code)).with_mac(mac).with_fp(fp);
                if matches!(cfg.mech, Mech::LongTerm) && (code == 401 || code == 438) {
                    reply = reply.with_chal(Chal { realm: code == 401, ..chal(2) });
                }
                go(&mut run, &mut hist, Event::Deliver { to: Target::Req(i), reply }, &mut r);
                go(&mut run, &mut hist, Event::Redeliver(usize::MAX), &mut r);
                go(&mut run, &mut hist, Event::TimerAt(3_600_000 * super::world::MS), &mut r);
                if run.w.reqs[i].finals.len() != 1 {
                    r.violate(
                        format!("not-exactly-one-final-outcome/error-{}xx", code / 100),
                        format!("error code {}: {:?}", code, run.w.reqs[i].finals.iter().map(|f| final_name(&f.1)).collect::<Vec<_>>()),
                        json!({"config": cfg.show(), "events": explore::show_history(&hist), "history": hist}),
                    );
                }
                r.transitions += hist.len() as u64;
                r.states += hist.len() as u64;
            }
            r.sym("every-error-code");
            shared.merge(r);
        });
    }
    let mut rep = shared.into_inner();
    rep.extra.insert("per_config".into(), json!(totals.iter().zip(cfgs.iter()).map(|(t, c)| json!({"config": c.show(), "states": t.0, "transitions": t.1, "depth": t.2})).collect::<Vec<_>>()));
    crate::util::finish(
        ctx,
        rep,
        Finish {
            level: "model_checking",
            rule: format!("breadth-first exploration of the real client to depth {} over {{Send (<=2 concurrent, <=3 with coarse time), Timer, AdvanceTo(region representatives of every schedule point / deadline: -1 ms, exact, +1 ms, midpoint, beyond), Deliver(each awaiting or the last finished request x reply menu of the mechanism incl. auth-failing and 401/438, and an acceptable response that also carries an unknown comprehension-required attribute), Deliver(unknown id), Deliver(an indication / a request carrying the id of an awaiting request), a send into a 16-byte buffer}} for {} transport x mechanism configurations (two of them - thorough four - with request methods 0x080 / 0xFFF / 0x100 / 0xA5A instead of Binding); plus deviation-bounded run-to-completion (<= {} deviations: lost / duplicated / late / after-failure / mis-authenticated reply, early / late / very late timer, extra request) on the default 500 ms / Rc 7 / Rm 16 configuration; plus responses whose id is one of 12 look-alikes of an outstanding id (refused; the genuine response is then delivered once); plus, for 10 configurations, one request answered by an error response with EVERY code 300..=699, delivered twice and followed by a late timer call (exactly one final outcome whatever the code). States deduplicated on the full client snapshot + monitor state; every transition executed on the implementation", depth, cfgs.len(), if thorough { 4 } else { 3 }),
            assumptions: vec!["time is explored through region representatives (the client only compares and subtracts instants)".into(), "dedup key is a 128-bit hash of the canonical state rendering".into()],
            required_symbols: vec!["Send", "Timer", "Advance", "Deliver", "bfs-configs", "deviation-runs", "every-error-code", "lookalike-ids"],
            min_outcomes: 8,
            exhaustive: true,
            bounds: json!({"depth": depth, "max_concurrent": 2, "deviations": if thorough {4} else {3}}),
        },
    )
}
