pub mod c03_client;
pub mod c10_client;
