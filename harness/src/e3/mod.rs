pub mod c03_client;
pub mod c05;
pub mod c06;
pub mod c07;
pub mod c08;
pub mod c10_client;
pub mod c11;
pub mod c12;
pub mod c13;
pub mod c15;
pub mod c17;
pub mod devrun;
pub mod explore;
pub mod server;
pub mod world;

use crate::util::Report;
use explore::{Event, Monitor, TimeDetail};
use std::sync::Arc;

/// the monitor a property uses (for replaying a recorded history without the explorer)
pub fn proto_for(prop: &str, cfg: &world::Cfg) -> Option<Box<dyn Monitor>> {
    Some(match prop {
        "C05" => Box::new(c05::Mon::new(4, TimeDetail::Medium)),
        "C06" => Box::new(c06::Mon::new(4, 0, true, TimeDetail::Fine)),
        "C07" => Box::new(c07::Mon::new(4, cfg)),
        "C08" => Box::new(c08::Mon::new(8)),
        "C10" => c10_client::proto(),
        "C11" => Box::new(c11::Mon::new(4, TimeDetail::Fine)),
        "C12" => Box::new(c12::Mon::new(64)),
        "C17" => Box::new(c17::Mon::new(3)),
        _ => return None,
    })
}

/// Re-executes a recorded history on a fresh real client under the property's monitor.
/// Returns the violations observed (key, detail).
pub fn replay_history(prop: &str, replay: &serde_json::Value) -> Result<Vec<(String, String)>, String> {
    let cfg: world::Cfg = serde_json::from_value(replay["cfg_json"].clone()).map_err(|e| format!("cfg_json: {}", e))?;
    let apps: Vec<Vec<crate::refs::codec::L>> = serde_json::from_value(replay["apps_json"].clone()).map_err(|e| format!("apps_json: {}", e))?;
    let events: Vec<Event> = serde_json::from_value(replay["events_json"].clone()).map_err(|e| format!("events_json: {}", e))?;
    let proto = proto_for(prop, &cfg).ok_or_else(|| format!("no client monitor for {}", prop))?;
    let apps = Arc::new(apps);
    let mut run = explore::start(&cfg, &apps, proto.as_ref());
    let mut rep = Report::new();
    for k in 0..events.len() {
        let obs = explore::step(&mut run, &events[k], Some((&mut rep, &events[..=k])));
        println!("  step {:>2} {:<60} -> {:?} {:?}", k, events[k].show().chars().take(60).collect::<String>(), format!("{:?}", obs.res).chars().take(60).collect::<String>(), world::show_events(&obs.events));
    }
    Ok(rep.violations.into_iter().map(|(k, (v, _))| (k, v.detail)).collect())
}
