//! Deviation-bounded run-to-completion driver. The default environment: two requests started 20 ms apart, the
//! faithful timer controller fires exactly when asked, every request gets one acceptable reply after 50 ms.
//! A deviation is a departure from that default at one choice point; all executions with at most `bound`
//! deviations are enumerated (executions still run to completion).

use super::c05::reply_menu;
use super::explore::{self, Event, Monitor, Run, Target};
use super::server::Reply;
use super::world::{CallRes, Cfg, OEv, MS};
use crate::refs::codec::L;
use crate::util::Report;
use rayon::prelude::*;
use serde_json::json;
use std::sync::Arc;

struct Exec {
    choices: Vec<u8>,
    arities: Vec<u8>,
    history: Vec<Event>,
    stranded: bool,
}

struct Ctl<'a> {
    prefix: &'a [u8],
    choices: Vec<u8>,
    arities: Vec<u8>,
}

impl Ctl<'_> {
    fn choose(&mut self, arity: u8) -> u8 {
        let i = self.choices.len();
        let c = if i < self.prefix.len() { self.prefix[i].min(arity - 1) } else { 0 };
        self.choices.push(c);
        self.arities.push(arity);
        c
    }
}

fn run_one(cfg: &Cfg, apps: &Arc<Vec<Vec<L>>>, proto: &dyn Monitor, prefix: &[u8], rep: &mut Report) -> Exec {
    let mut run: Run = explore::start(cfg, apps, proto);
    let mut ctl = Ctl { prefix, choices: vec![], arities: vec![] };
    let mut hist: Vec<Event> = vec![];
    let menu = reply_menu(cfg);
    let good: Reply = menu[0];
    let bad: Option<Reply> = menu.get(2).copied();
    let mut planned: Vec<u64> = vec![0, 20 * MS];
    let mut pending: Vec<(u64, usize, Reply)> = vec![];
    let mut armed: Option<u64> = None;
    let mut sends = 0usize;
    // no fixed time horizon: a learned RTO can be minutes long (a reply that arrives after 40 s is a legitimate RTT
    // sample); executions end when nothing is armed, pending or planned, or at the step cap (reported, not a verdict)
    let mut capped = false;
    let mut do_step = |run: &mut Run, hist: &mut Vec<Event>, ev: Event, rep: &mut Report| {
        hist.push(ev.clone());
        let h = hist.clone();
        explore::step(run, &ev, Some((rep, &h)))
    };
    let mut steps = 0;
    let violations_at_start = rep.total_occurrences();
    loop {
        steps += 1;
        if run.w.dead.is_some() {
            break;
        }
        // an execution that has already produced a violation is not driven any further (a broken client may never
        // become quiescent, and every further step would only repeat the finding with a longer history)
        if rep.total_occurrences() > violations_at_start {
            return Exec { choices: ctl.choices, arities: ctl.arities, history: hist, stranded: false };
        }
        if steps > 400 {
            capped = true;
            break;
        }
        // next occurrence
        let next_reply = pending.iter().map(|p| p.0).min();
        let next_send = planned.first().copied();
        let mut cands: Vec<(u64, u8)> = vec![];
        if let Some(t) = next_reply {
            cands.push((t, 0));
        }
        if let Some(t) = armed {
            cands.push((t, 1));
        }
        if let Some(t) = next_send {
            cands.push((t, 2));
        }
        let Some((t, what)) = cands.into_iter().min() else { break };
        let mut after_call = false;
        match what {
            0 => {
                let ix = pending.iter().position(|p| p.0 == t).unwrap();
                let (_, i, reply) = pending.remove(ix);
                if t > run.w.now {
                    do_step(&mut run, &mut hist, Event::AdvanceTo(t), rep);
                }
                do_step(&mut run, &mut hist, Event::Deliver { to: Target::Req(i), reply }, rep);
            }
            1 => {
                // timer lateness: on time, early 1 ms, late 1 ms, late by half the interval it waited for, beyond
                let c = ctl.choose(5);
                let issued = run.w.last_rto_event.as_ref().map(|x| x.1).unwrap_or(0);
                let waited = t.saturating_sub(issued);
                let maxd = run.w.reqs.iter().map(|r| r.schedule().1).max().unwrap_or(t);
                let fire = match c {
                    0 => t,
                    1 => t.saturating_sub(MS).max(run.w.now),
                    2 => t + MS,
                    3 => t + (waited / 2).max(MS),
                    _ => maxd.max(t) + 1000 * MS,
                };
                // replies that fall before the (late) firing are delivered first
                let mut due: Vec<(u64, usize, Reply)> = pending.iter().filter(|p| p.0 <= fire).cloned().collect();
                due.sort_by_key(|p| p.0);
                pending.retain(|p| p.0 > fire);
                for (dt, i, reply) in due {
                    if dt > run.w.now {
                        do_step(&mut run, &mut hist, Event::AdvanceTo(dt), rep);
                    }
                    do_step(&mut run, &mut hist, Event::Deliver { to: Target::Req(i), reply }, rep);
                }
                if fire > run.w.now {
                    do_step(&mut run, &mut hist, Event::AdvanceTo(fire), rep);
                }
                let obs = do_step(&mut run, &mut hist, Event::Timer, rep);
                armed = obs.events.iter().find_map(|e| if let OEv::Rto { ns, .. } = e { Some(run.w.now + ns) } else { None });
                after_call = true;
            }
            _ => {
                planned.remove(0);
                if t > run.w.now {
                    do_step(&mut run, &mut hist, Event::AdvanceTo(t), rep);
                }
                let obs = do_step(&mut run, &mut hist, Event::Send { app: 0 }, rep);
                sends += 1;
                if let CallRes::SendOk(i) = obs.res {
                    armed = obs.events.iter().find_map(|e| if let OEv::Rto { ns, .. } = e { Some(run.w.now + ns) } else { None });
                    // fate of the reply
                    let arity = if bad.is_some() { 7 } else { 5 };
                    let c = ctl.choose(arity);
                    let r = &run.w.reqs[i];
                    let (s, d) = r.schedule();
                    let t0 = r.t0;
                    match c {
                        0 => pending.push((t0 + 50 * MS, i, good)),
                        1 => {}
                        2 => {
                            pending.push((t0 + 50 * MS, i, good));
                            pending.push((t0 + 60 * MS, i, good));
                        }
                        3 => pending.push((s.first().copied().unwrap_or(d) + 50 * MS, i, good)),
                        4 => pending.push((d + 1000 * MS, i, good)),
                        5 => pending.push((t0 + 50 * MS, i, bad.unwrap())),
                        _ => {
                            pending.push((t0 + 50 * MS, i, bad.unwrap()));
                            pending.push((t0 + 70 * MS, i, good));
                        }
                    }
                }
                after_call = true;
            }
        }
        // an extra request right after a client call?
        if after_call && sends < 3 && planned.is_empty() {
            if ctl.choose(2) == 1 {
                planned.insert(0, run.w.now + MS);
            }
        }
    }
    // run ended: nothing armed, nothing pending, nothing planned
    if capped {
        rep.capped = Some("a run-to-completion execution hit the 400-step cap".into());
    }
    let stranded = !capped && run.w.dead.is_none() && !run.w.awaiting().is_empty();
    {
        let h = hist.clone();
        run.mon.on_end(&run.w, stranded, Some((rep, &h)));
    }
    Exec { choices: ctl.choices, arities: ctl.arities, history: hist, stranded }
}

/// Enumerates every execution with at most `bound` deviations. Returns the number of executions.
pub fn explore(cfg: &Cfg, apps: &Arc<Vec<Vec<L>>>, proto: &dyn Monitor, bound: usize, rep: &mut Report) -> u64 {
    let bound = if crate::util::second_pass() { bound.saturating_sub(1).max(1) } else { bound };
    let mut level: Vec<Vec<u8>> = vec![vec![]];
    let mut total = 0u64;
    for dev in 0..=bound {
        let results: Vec<(Vec<Vec<u8>>, Report, u64, bool)> = level
            .par_iter()
            .map(|prefix| {
                let mut local = Report::new();
                let x = run_one(cfg, apps, proto, prefix, &mut local);
                let mut kids = vec![];
                if dev < bound {
                    for i in prefix.len()..x.choices.len() {
                        for alt in 1..x.arities[i] {
                            let mut p = x.choices[..i].to_vec();
                            p.push(alt);
                            kids.push(p);
                        }
                    }
                }
                let steps = x.history.len() as u64;
                if prefix.is_empty() {
                    local.sample(json!({"config": cfg.show(), "deviations": 0, "history": explore::show_history(&x.history)}));
                }
                (kids, local, steps, x.stranded)
            })
            .collect();
        let mut next = vec![];
        for (kids, local, steps, stranded) in results {
            total += 1;
            rep.transitions += steps;
            rep.states += steps; // run-to-completion executions are not merged: each step is a visited state
            if stranded {
                rep.add_extra("runs_ending_with_a_request_still_awaiting", 1);
            }
            rep.merge(local);
            next.extend(kids);
        }
        rep.sym_n(&format!("executions-with-{}-deviations", dev), level.len() as u64);
        level = next;
        if level.is_empty() {
            break;
        }
    }
    total
}
