//! C15 RTO estimate follows RFC 6298 with Karn's rule and goes stale after 10 minutes.

use super::explore::{self, Event, Monitor, Step, Target};
use super::server::{Chal, NonceKind, PasKind, RClass, RMac, Reply};
use super::world::{CallRes, Cfg, Mech, OEv, Transport, World, MS};
use crate::refs::codec::L;
use crate::util::{Finish, Report, RunCtx, Shared};
use rayon::prelude::*;
use serde_json::json;
use std::sync::Arc;

struct Nop;
impl Monitor for Nop {
    fn fresh(&self) -> Box<dyn Monitor> {
        Box::new(Nop)
    }
    fn on_step(&mut self, _w: &World, _st: &Step, _rep: Option<(&mut Report, &[Event])>) {}
    fn key(&self, _w: &World) -> String {
        String::new()
    }
    fn enabled(&self, _w: &World) -> Vec<Event> {
        vec![]
    }
    fn needs_snapshots(&self) -> bool {
        false
    }
}

#[derive(Clone, Copy, Debug, PartialEq, Eq, Hash)]
pub enum Delay {
    Ms(u64),
    /// one ms before the first retransmission is due
    JustBeforeRto,
    /// 5 ms after the k-th retransmission was sent by the timer
    AfterRetransmissions(u32),
    /// never answered: runs into the final time-out
    Never,
    /// an ERROR response after this many ms (a completed transaction like any other)
    ErrorMs(u64),
    /// a timer call halfway to the first retransmission (nothing is retransmitted), then the response 5 ms later
    EarlyTimerThenAnswer,
    /// a second request is sent 2 ms after this one; this one is answered after `.0` ms, the second after `.1` ms
    Overlap(u64, u64),
}

#[derive(Clone, Copy, Debug, PartialEq, Eq, Hash)]
pub enum Gap {
    /// next request right after this one finished
    Immediately,
    /// next request this many ms after this request's send instant (not before its completion)
    Ms(u64),
    /// like `Ms(total)`, with a `send_request` into an 8-byte buffer (refused, no request comes into being) `at` ms after
    /// this request's send instant: a call that is not a request and must not count as one for the staleness rule
    FailedSend { at: u64, total: u64 },
    /// next request this many NANOSECONDS after this request's send instant (gaps that are not whole milliseconds)
    Ns(u64),
}

/// Double-precision RFC 6298 (alpha 1/8, beta 1/4, K 4, RTTVAR before SRTT, max(G, 4*RTTVAR), no rounding)
#[derive(Clone, Copy, Debug)]
pub struct Ref6298 {
    pub configured: f64,
    pub g: f64,
    pub srtt: Option<f64>,
    pub rttvar: f64,
    pub rto: f64,
}

impl Ref6298 {
    pub fn new(rto_ns: f64, g_ns: f64) -> Self {
        Ref6298 { configured: rto_ns, g: g_ns, srtt: None, rttvar: 0.0, rto: rto_ns }
    }
    pub fn reset(&mut self) {
        self.srtt = None;
        self.rttvar = 0.0;
        self.rto = self.configured;
    }
    pub fn sample(&mut self, r: f64) {
        match self.srtt {
            None => {
                self.srtt = Some(r);
                self.rttvar = r / 2.0;
            }
            Some(s) => {
                self.rttvar = 0.75 * self.rttvar + 0.25 * (s - r).abs();
                self.srtt = Some(0.875 * s + 0.125 * r);
            }
        }
        self.rto = self.srtt.unwrap() + self.g.max(4.0 * self.rttvar);
    }
}

pub struct ChainResult {
    pub steps: u64,
    pub max_rel_err: f64,
}

/// Runs one chain of transactions on the real client and compares with the reference after every send.
pub fn run_chain(cfg: &Cfg, apps: &Arc<Vec<Vec<L>>>, chain: &[(Delay, Gap)], repeat_to: usize, rep: &mut Report) -> ChainResult {
    let (rto_ms, gran_ms) = match cfg.transport {
        Transport::Unreliable { rto_ms, gran_ms, .. } => (rto_ms, gran_ms),
        _ => unreachable!(),
    };
    let mut reference = Ref6298::new((rto_ms * MS) as f64, (gran_ms * MS) as f64);
    let mut run = explore::start(cfg, apps, &Nop);
    let mut hist: Vec<String> = vec![];
    let mut steps = 0u64;
    let mut max_err = 0.0f64;
    let mut last_request_at: Option<u64> = None;
    let n = repeat_to.max(chain.len());
    for k in 0..n {
        let (delay, gap) = chain[k % chain.len()];
        // staleness: more than ten minutes since the previous request
        if let Some(prev) = last_request_at {
            if run.w.now - prev > 600_000 * MS {
                reference.reset();
            }
        }
        let t0 = run.w.now;
        last_request_at = Some(t0);
        let obs = explore::step(&mut run, &Event::Send { app: 0 }, None);
        steps += 1;
        hist.push(format!("send@{}ms {:?} {:?}", t0 / MS, delay, gap));
        let replay = |hist: &Vec<String>| json!({"kind": "chain", "config": cfg.show(), "transactions": hist});
        let CallRes::SendOk(i) = obs.res else {
            rep.violate("send-fails-in-chain", format!("{:?}", obs.res), replay(&hist));
            break;
        };
        // (a) the interval recorded for the transaction and (b) the announced duration (nothing else is outstanding)
        let got = run.w.reqs[i].rto_ns as f64;
        let tol = 1e-5 * reference.rto + 1000.0;
        let err = (got - reference.rto).abs();
        max_err = max_err.max(err / reference.rto);
        rep.eval();
        if err > tol {
            let cls = if reference.srtt.is_none() { "without-samples" } else { "with-samples" };
            let dir = if got > reference.rto { "too-long" } else { "too-short" };
            rep.violate(
                format!("initial-interval-differs-from-rfc6298/{}/{}", cls, dir),
                format!("transaction {}: client {} ns, reference {:.1} ns (srtt {:?}, rttvar {:.1})", k, got, reference.rto, reference.srtt, reference.rttvar),
                replay(&hist),
            );
            break;
        }
        let announced = obs.events.iter().find_map(|e| if let OEv::Rto { ns, .. } = e { Some(*ns) } else { None });
        if announced != Some(run.w.reqs[i].rto_ns) {
            rep.violate("announced-duration-differs-from-recorded-interval", format!("{:?} vs {}", announced, run.w.reqs[i].rto_ns), replay(&hist));
            break;
        }
        if run.w.rto_estimate() != Some(run.w.reqs[i].rto_ns) {
            rep.violate("estimator-value-differs-from-recorded-interval", format!("{:?} vs {}", run.w.rto_estimate(), run.w.reqs[i].rto_ns), replay(&hist));
            break;
        }
        rep.nontrivial(&(cfg, k, (got / 1000.0) as u64));
        // play the transaction
        let rto_i = run.w.reqs[i].rto_ns;
        // the answer that completes a transaction under the configured mechanism: a plain success, a success carrying a
        // valid MESSAGE-INTEGRITY (short-term), or a 401 challenge with a fresh nonce (long-term: the application is told
        // to retry - a completed transaction like any other as far as the estimator is concerned)
        let (mut ok, err_reply) = match cfg.mech {
            Mech::None => (Reply::plain(RClass::Success), Reply::plain(RClass::Error(400))),
            Mech::ShortTerm(_) => (Reply::plain(RClass::Success).with_mac(RMac::Mi), Reply::plain(RClass::Error(400)).with_mac(RMac::Mi)),
            Mech::LongTerm => {
                let c = Reply::plain(RClass::Error(401)).with_chal(Chal { realm: true, nonce: NonceKind::Plain((k % 5) as u8), pas: PasKind::Absent, realm_v: 0, order: 0 });
                (c, c)
            }
        };
        let mut retransmitted = false;
        if let Delay::Overlap(a_ms, b_ms) = delay {
            // two overlapping transactions: the second starts on the same estimate (no sample yet)
            explore::step(&mut run, &Event::AdvanceTo(t0 + 2 * MS), None);
            let ob = explore::step(&mut run, &Event::Send { app: 0 }, None);
            steps += 2;
            last_request_at = Some(t0 + 2 * MS);
            let CallRes::SendOk(j) = ob.res else {
                rep.violate("send-fails-in-chain", format!("{:?}", ob.res), replay(&hist));
                break;
            };
            let got_b = run.w.reqs[j].rto_ns as f64;
            if (got_b - reference.rto).abs() > tol {
                rep.violate(
                    "initial-interval-differs-from-rfc6298/overlapping-request",
                    format!("second of two overlapping requests: client {} ns, reference {:.1} ns", got_b, reference.rto),
                    replay(&hist),
                );
                break;
            }
            let mut arrivals = vec![(t0 + a_ms * MS, i, a_ms * MS), (t0 + (2 + b_ms) * MS, j, b_ms * MS)];
            arrivals.sort();
            let mut bad = false;
            for (at, who, r) in arrivals {
                explore::step(&mut run, &Event::AdvanceTo(at), None);
                let o = explore::step(&mut run, &Event::Deliver { to: Target::Req(who), reply: ok }, None);
                steps += 2;
                if !matches!(o.res, CallRes::RecvOk) {
                    rep.violate("response-refused-in-chain", format!("{:?}", o.res), replay(&hist));
                    bad = true;
                    break;
                }
                reference.sample(r as f64);
                rep.sym("sampled-overlapping");
            }
            if bad {
                break;
            }
            if let Gap::Ns(ns) = gap {
                let t = t0 + ns;
                if t > run.w.now {
                    explore::step(&mut run, &Event::AdvanceTo(t), None);
                    steps += 1;
                }
            }
            if let Gap::Ms(ms) | Gap::FailedSend { total: ms, .. } = gap {
                let t = t0 + 2 * MS + ms * MS;
                if t > run.w.now {
                    explore::step(&mut run, &Event::AdvanceTo(t), None);
                    steps += 1;
                }
            }
            continue;
        }
        let answer_at = match delay {
            Delay::Overlap(..) => unreachable!(),
            Delay::ErrorMs(ms) => {
                ok = err_reply;
                rep.sym("error-response-sampled");
                Some(t0 + ms * MS)
            }
            Delay::EarlyTimerThenAnswer => {
                let half = t0 + rto_i / 2;
                let o = explore::step(&mut run, &Event::TimerAt(half), None);
                steps += 1;
                if o.events.iter().any(|e| matches!(e, OEv::Out { .. })) {
                    rep.violate("early-timer-call-retransmits", "", replay(&hist));
                    break;
                }
                rep.sym("early-timer-then-answer");
                Some(half + 5 * MS)
            }
            Delay::Ms(ms) => Some(t0 + ms * MS),
            Delay::JustBeforeRto => Some(t0 + rto_i - MS.min(rto_i / 2)),
            Delay::AfterRetransmissions(r) => {
                let (s, _) = run.w.reqs[i].schedule();
                let mut at = t0;
                for slot in s.iter().take(r as usize) {
                    explore::step(&mut run, &Event::TimerAt(*slot), None);
                    steps += 1;
                    retransmitted = true;
                    at = *slot;
                }
                Some(at + 5 * MS)
            }
            Delay::Never => None,
        };
        // a response that arrives at or after the first slot without a timer call is still an un-retransmitted one
        match answer_at {
            Some(t) => {
                explore::step(&mut run, &Event::AdvanceTo(t), None);
                let o = explore::step(&mut run, &Event::Deliver { to: Target::Req(i), reply: ok }, None);
                steps += 2;
                if !matches!(o.res, CallRes::RecvOk) {
                    rep.violate("response-refused-in-chain", format!("{:?}", o.res), replay(&hist));
                    break;
                }
                let r = (t - t0) as f64;
                if !retransmitted && r > 0.0 {
                    reference.sample(r);
                    rep.sym("sampled");
                } else {
                    rep.sym("not-sampled-after-retransmission");
                }
            }
            None => {
                let d = run.w.reqs[i].schedule().1;
                let mut guard = 0;
                while run.w.reqs[i].awaiting() && guard < 40 {
                    guard += 1;
                    let t = run.w.reqs[i].pending_deadline().max(run.w.now);
                    explore::step(&mut run, &Event::TimerAt(t), None);
                    steps += 1;
                }
                let _ = d;
                rep.sym("not-sampled-timed-out");
            }
        }
        match gap {
            Gap::Immediately => {}
            Gap::FailedSend { at, total } => {
                let ta = t0 + at * MS;
                if ta > run.w.now {
                    explore::step(&mut run, &Event::AdvanceTo(ta), None);
                    steps += 1;
                }
                let o = explore::step(&mut run, &Event::SendTiny { app: 0, cap: 8 }, None);
                steps += 1;
                if !matches!(o.res, CallRes::SendErr(_)) || !o.events.is_empty() {
                    rep.violate("send-into-an-8-byte-buffer-not-refused-cleanly", format!("{:?} {:?}", o.res, super::world::show_events(&o.events)), replay(&hist));
                    break;
                }
                rep.sym("failed-send-inside-a-pause");
                let t = t0 + total * MS;
                if t > run.w.now {
                    explore::step(&mut run, &Event::AdvanceTo(t), None);
                    steps += 1;
                }
            }
            Gap::Ns(ns) => {
                let t = t0 + ns;
                if t > run.w.now {
                    explore::step(&mut run, &Event::AdvanceTo(t), None);
                    steps += 1;
                    rep.sym("gap-within-a-millisecond-of-600s");
                }
            }
            Gap::Ms(ms) => {
                let t = t0 + ms * MS;
                if t > run.w.now {
                    explore::step(&mut run, &Event::AdvanceTo(t), None);
                    steps += 1;
                    if ms > 600_000 {
                        rep.sym("gap-beyond-600s");
                    } else if ms == 600_000 {
                        rep.sym("gap-exactly-600s");
                    }
                }
            }
        }
    }
    ChainResult { steps, max_rel_err: max_err }
}

/// A request sent more than ten minutes after the previous REQUEST discards the estimate - also while an older transaction
/// is still outstanding (RTO 20 s: a transaction lives 790 s). History: R0 answered after `first` ms; A sent at 10 s and
/// not answered, its timers fired on time; B sent `gap` ms after A; B answered after 1 s; A answered (after retransmissions:
/// no sample); C sent 10 s later. Every interval is compared with the double-precision reference.
fn long_lived_overlap(rep: &mut Report, apps: &Arc<Vec<Vec<L>>>) {
    for rto_ms in [20_000u64, 16_000] {
        for first in [6_000u64, 1_000] {
            for gap in [601_000u64, 600_000, 650_000] {
                let cfg = Cfg { transport: Transport::Unreliable { rto_ms, gran_ms: 1, rm: 16, rc: 7 }, mech: Mech::None, fingerprint: false, max_tx: 10, cred: 0, method: 1 };
                let mut reference = Ref6298::new((rto_ms * MS) as f64, MS as f64);
                let mut run = explore::start(&cfg, apps, &Nop);
                let mut hist: Vec<String> = vec![];
                let mut last_request_at: Option<u64> = None;
                let ok = Reply::plain(RClass::Success);
                let mut send = |run: &mut explore::Run, reference: &mut Ref6298, hist: &mut Vec<String>, what: &str, rep: &mut Report| -> Option<usize> {
                    if let Some(prev) = last_request_at {
                        if run.w.now - prev > 600_000 * MS {
                            reference.reset();
                        }
                    }
                    last_request_at = Some(run.w.now);
                    let o = explore::step(run, &Event::Send { app: 0 }, None);
                    hist.push(format!("t={} ms: send {}", run.w.now / MS, what));
                    let CallRes::SendOk(i) = o.res else {
                        rep.violate("send-fails-in-chain", format!("{:?}", o.res), json!({"config": cfg.show(), "events": hist}));
                        return None;
                    };
                    rep.eval();
                    let got = run.w.reqs[i].rto_ns as f64;
                    if (got - reference.rto).abs() > 1e-5 * reference.rto + 1000.0 {
                        rep.violate(
                            format!("initial-interval-differs-from-rfc6298/while-an-older-request-is-outstanding/{}", if got > reference.rto { "too-long" } else { "too-short" }),
                            format!("request {}: client {} ns, reference {:.1} ns", what, got, reference.rto),
                            json!({"config": cfg.show(), "events": hist.clone()}),
                        );
                        return None;
                    }
                    Some(i)
                };
                let Some(r0) = send(&mut run, &mut reference, &mut hist, "R0", rep) else { continue };
                explore::step(&mut run, &Event::AdvanceTo(first * MS), None);
                explore::step(&mut run, &Event::Deliver { to: Target::Req(r0), reply: ok }, None);
                hist.push(format!("t={} ms: R0 answered", first));
                reference.sample((first * MS) as f64);
                explore::step(&mut run, &Event::AdvanceTo(10_000 * MS), None);
                let Some(a) = send(&mut run, &mut reference, &mut hist, "A", rep) else { continue };
                let tb = 10_000 * MS + gap * MS;
                loop {
                    let d = run.w.reqs[a].pending_deadline();
                    if d >= tb || !run.w.reqs[a].awaiting() {
                        break;
                    }
                    explore::step(&mut run, &Event::TimerAt(d), None);
                    hist.push(format!("t={} ms: timer", d / MS));
                }
                if !run.w.reqs[a].awaiting() {
                    continue; // (A did not live long enough under this configuration: nothing to check)
                }
                explore::step(&mut run, &Event::AdvanceTo(tb), None);
                let Some(b) = send(&mut run, &mut reference, &mut hist, "B (A still outstanding)", rep) else { continue };
                explore::step(&mut run, &Event::AdvanceTo(tb + 1_000 * MS), None);
                explore::step(&mut run, &Event::Deliver { to: Target::Req(b), reply: ok }, None);
                hist.push("B answered after 1 s".into());
                reference.sample((1_000 * MS) as f64);
                explore::step(&mut run, &Event::AdvanceTo(tb + 5_000 * MS), None);
                explore::step(&mut run, &Event::Deliver { to: Target::Req(a), reply: ok }, None);
                hist.push("A answered (it was retransmitted: no sample)".into());
                explore::step(&mut run, &Event::AdvanceTo(tb + 10_000 * MS), None);
                if send(&mut run, &mut reference, &mut hist, "C", rep).is_some() {
                    rep.sym("stale-gap-while-an-older-request-is-outstanding");
                }
                rep.transitions += hist.len() as u64;
                rep.states += hist.len() as u64;
            }
        }
    }
}

pub fn run(ctx: &RunCtx) -> i32 {
    let thorough = ctx.thorough();
    let apps: Arc<Vec<Vec<L>>> = Arc::new(vec![vec![]]);
    let shared = Shared::new();
    let delays = [
        Delay::Ms(1),
        Delay::Ms(7),
        Delay::Ms(100),
        Delay::JustBeforeRto,
        Delay::AfterRetransmissions(1),
        Delay::AfterRetransmissions(2),
        Delay::Never,
        Delay::ErrorMs(9),
        Delay::EarlyTimerThenAnswer,
        Delay::Overlap(7, 20),
        Delay::Overlap(30, 4),
    ];
    let gaps = [Gap::Immediately, Gap::Ms(1_000), Gap::Ms(599_999), Gap::Ms(600_000), Gap::Ms(600_001), Gap::Ms(1_200_000)];
    let red_delays = [Delay::Ms(7), Delay::Ms(100), Delay::AfterRetransmissions(1), Delay::Overlap(30, 4)];
    let red_gaps = [Gap::Immediately, Gap::Ms(600_000), Gap::Ms(600_001)];
    let mut cfgs = vec![];
    for rto in [100u64, 500, 3000] {
        for gran in [1u64, 10, 1000] {
            cfgs.push(Cfg { transport: Transport::Unreliable { rto_ms: rto, gran_ms: gran, rm: 16, rc: 7 }, mech: Mech::None, fingerprint: false, max_tx: 10, cred: 0, method: 1 });
        }
    }
    // the estimator is fed by the client, not by the mechanism: the same chains with short-term and long-term credentials
    for mech in [Mech::ShortTerm(Some(false)), Mech::LongTerm] {
        cfgs.push(Cfg { transport: Transport::Unreliable { rto_ms: 500, gran_ms: 1, rm: 16, rc: 7 }, mech, fingerprint: false, max_tx: 10, cred: 0, method: 1 });
    }
    let full: Vec<(Delay, Gap)> = delays.iter().flat_map(|d| gaps.iter().map(move |g| (*d, *g))).collect();
    let red: Vec<(Delay, Gap)> = red_delays.iter().flat_map(|d| red_gaps.iter().map(move |g| (*d, *g))).collect();
    let (full_len, red_len) = if crate::util::second_pass() { (2, 3) } else if thorough { (3, 6) } else { (3, 5) };
    // chains are enumerated lazily from their index (digits in base |menu|)
    fn chain_of(mut ix: u64, alpha: usize, len: usize) -> Vec<usize> {
        let mut v = Vec::with_capacity(len);
        for _ in 0..len {
            v.push((ix % alpha as u64) as usize);
            ix /= alpha as u64;
        }
        v
    }
    // failed sends inside pauses: every chain of 3 over 3 behaviours x 6 gaps (three of them with a refused send
    // 100 / 400 / 650 s into a pause of 500 / 700 / 700 s)
    let fs_delays = [Delay::Ms(7), Delay::Ms(100), Delay::AfterRetransmissions(1)];
    let fs_gaps = [
        Gap::Immediately,
        Gap::Ms(1_000),
        Gap::Ms(600_001),
        Gap::FailedSend { at: 400_000, total: 700_000 },
        Gap::FailedSend { at: 100_000, total: 500_000 },
        Gap::FailedSend { at: 650_000, total: 700_000 },
    ];
    let fs: Vec<(Delay, Gap)> = fs_delays.iter().flat_map(|d| fs_gaps.iter().map(move |g| (*d, *g))).collect();
    {
        let n = (fs.len() as u64).pow(3);
        (0..cfgs.len() as u64 * n).into_par_iter().for_each(|job| {
            let mut r = Report::new();
            let ci = (job / n) as usize;
            let mut k = job % n;
            let mut chain = vec![];
            for _ in 0..3 {
                chain.push(fs[(k % fs.len() as u64) as usize]);
                k /= fs.len() as u64;
            }
            let res = run_chain(&cfgs[ci], &apps, &chain, 0, &mut r);
            r.transitions += res.steps;
            r.states += res.steps;
            shared.merge(r);
        });
    }
    // gaps that are not whole milliseconds, within a millisecond of the ten-minute limit ("more than 600 s" is decided on the
    // instants as given, not on a rounded difference): every chain of 3 over 2 behaviours x 6 gaps
    {
        const TEN_MIN_NS: u64 = 600_000 * MS;
        let sm_gaps = [Gap::Immediately, Gap::Ns(TEN_MIN_NS - 1), Gap::Ns(TEN_MIN_NS + 1), Gap::Ns(TEN_MIN_NS + 500_000), Gap::Ns(TEN_MIN_NS + 999_999), Gap::Ms(600_001)];
        let sm: Vec<(Delay, Gap)> = [Delay::Ms(7), Delay::Ms(100)].iter().flat_map(|d| sm_gaps.iter().map(move |g| (*d, *g))).collect();
        let n = (sm.len() as u64).pow(3);
        (0..cfgs.len() as u64 * n).into_par_iter().for_each(|job| {
            let mut r = Report::new();
            let ci = (job / n) as usize;
            let mut k = job % n;
            let mut chain = vec![];
            for _ in 0..3 {
                chain.push(sm[(k % sm.len() as u64) as usize]);
                k /= sm.len() as u64;
            }
            let res = run_chain(&cfgs[ci], &apps, &chain, 0, &mut r);
            r.transitions += res.steps;
            r.states += res.steps;
            shared.merge(r);
        });
    }
    {
        let mut r = Report::new();
        long_lived_overlap(&mut r, &apps);
        shared.merge(r);
    }
    let pd = [Delay::Ms(1), Delay::Ms(7), Delay::Ms(100), Delay::JustBeforeRto, Delay::AfterRetransmissions(1), Delay::AfterRetransmissions(2)];
    // (configuration, family, index): family 0 = full menu, 1 = reduced menu, 2..=4 = periodic with period 1..=3
    let n_full = (full.len() as u64).pow(full_len as u32);
    let n_red = (red.len() as u64).pow(red_len as u32);
    let n_per: Vec<u64> = (1..=3u32).map(|p| (pd.len() as u64).pow(p)).collect();
    let per_cfg = n_full + n_red + n_per.iter().sum::<u64>();
    let n_jobs = per_cfg * cfgs.len() as u64;
    let decode = |job: u64| -> (usize, Vec<(Delay, Gap)>, usize) {
        let ci = (job / per_cfg) as usize;
        let mut k = job % per_cfg;
        if k < n_full {
            return (ci, chain_of(k, full.len(), full_len).iter().map(|i| full[*i]).collect(), 0);
        }
        k -= n_full;
        if k < n_red {
            return (ci, chain_of(k, red.len(), red_len).iter().map(|i| red[*i]).collect(), 0);
        }
        k -= n_red;
        for (p, n) in n_per.iter().enumerate() {
            if k < *n {
                return (ci, chain_of(k, pd.len(), p + 1).iter().map(|i| (pd[*i], Gap::Immediately)).collect(), 300);
            }
            k -= n;
        }
        unreachable!()
    };
    let chunk = 4096u64;
    (0..(n_jobs + chunk - 1) / chunk).into_par_iter().for_each(|c| {
        let mut r = Report::new();
        let mut worst = 0.0f64;
        for job in (c * chunk)..((c + 1) * chunk).min(n_jobs) {
            let (ci, chain, repeat) = decode(job);
            let res = run_chain(&cfgs[ci], &apps, &chain, repeat, &mut r);
            r.transitions += res.steps;
            r.states += res.steps;
            worst = worst.max(res.max_rel_err);
            if repeat > 0 {
                r.sym("periodic-300");
            }
        }
        r.extra.insert("max_relative_error_ppm".into(), json!((worst * 1e6) as u64));
        shared.merge(r);
    });
    let mut rep = shared.into_inner();
    rep.sample(json!({"config": cfgs[4].show(), "chain": format!("{:?}", decode(4 * per_cfg + 5).1)}));
    rep.sample(json!({"config": cfgs[0].show(), "periodic_chain_to_300": format!("{:?}", decode(per_cfg - 1).1)}));
    rep.outcome("within-tolerance");
    rep.outcome(format!("violations:{}", rep.violations.len()));
    rep.add_extra("chains", n_jobs);
    crate::util::finish(
        ctx,
        rep,
        Finish {
            level: "model_checking",
            rule: format!("for RTO {{100, 500, 3000}} ms x granularity {{1, 10, 1000}} ms without credentials, and RTO 500 ms with short-term credentials (answers carry a valid MESSAGE-INTEGRITY) and long-term credentials (every answer is a 401 challenge with a fresh nonce, i.e. a Retry outcome): every chain of {} transactions over 11 response behaviours (1 / 7 / 100 ms, 1 ms before the first retransmission, after one / two retransmissions, never answered, an error response, an early timer call followed by the answer, two overlapping requests answered in either order) x 6 gaps (immediately, 1 s, 599.999 s, 600 s, 600.001 s, 1200 s between consecutive request instants), every chain of {} transactions over a reduced 4 x 3 menu, every chain of 3 transactions over 3 behaviours x 6 gaps of which three contain a send_request refused for lack of buffer space in the middle of the pause (it is not a request and must not refresh the staleness clock), every chain of 3 transactions over 2 behaviours x 6 gaps within a millisecond of the ten-minute limit (600 s - 1 ns, + 1 ns, + 0.5 ms, + 0.999999 ms, + 1 ms), 12 directed histories with RTO 16 / 20 s in which a request is sent 600 / 601 / 650 s after the previous one while an older, retransmitted transaction is still outstanding, and every periodic chain of period <= 3 over 6 response behaviours repeated to 300 transactions ({} chains in total), executed on the real client. After every send the interval recorded for the transaction (H1), the estimator value (H1) and the announced duration are compared with a double-precision RFC 6298 reference (first sample SRTT=R, RTTVAR=R/2; later RTTVAR before SRTT; RTO=SRTT+max(G,4*RTTVAR); sample iff completed without retransmission; reset iff more than 600 s since the previous request) within 1e-5 relative + 1 microsecond", full_len, red_len, n_jobs),
            assumptions: vec!["zero-length response times are excluded as the statement says".into(), "verdicts are taken after every send, so chains of the maximal length cover all shorter ones".into()],
            required_symbols: vec!["sampled", "not-sampled-after-retransmission", "not-sampled-timed-out", "gap-beyond-600s", "gap-exactly-600s", "periodic-300", "sampled-overlapping", "error-response-sampled", "early-timer-then-answer", "failed-send-inside-a-pause", "gap-within-a-millisecond-of-600s", "stale-gap-while-an-older-request-is-outstanding"],
            min_outcomes: 2,
            exhaustive: true,
            bounds: json!({"full_menu_len": full_len, "reduced_menu_len": red_len, "periodic_to": 300}),
        },
    )
}
