pub mod c01;
pub mod c02;
pub mod c03;
pub mod c04;
pub mod c09;
pub mod c10;
pub mod c14;
pub mod c16;
pub mod c18;
pub mod c19;

use crate::util::RunCtx;

pub fn run(ctx: &RunCtx) -> i32 {
    match ctx.property.as_str() {
        "C01" => c01::run(ctx),
        "C02" => c02::run(ctx),
        "C03" => c03::run(ctx),
        "C04" => c04::run(ctx),
        "C05" => crate::e3::c05::run(ctx),
        "C06" => crate::e3::c06::run(ctx),
        "C07" => crate::e3::c07::run(ctx),
        "C08" => crate::e3::c08::run(ctx),
        "C09" => c09::run(ctx),
        "C10" => c10::run(ctx),
        "C11" => crate::e3::c11::run(ctx),
        "C12" => crate::e3::c12::run(ctx),
        "C13" => crate::e3::c13::run(ctx),
        "C14" => c14::run(ctx),
        "C15" => crate::e3::c15::run(ctx),
        "C16" => c16::run(ctx),
        "C17" => crate::e3::c17::run(ctx),
        "C18" => c18::run(ctx),
        "C19" => c19::run(ctx),
        other => {
            println!("MACHINERY-ERROR unknown property {}", other);
            2
        }
    }
}

pub fn replay(prop: &str, path: &str) -> i32 {
    let body = match std::fs::read_to_string(path).ok().and_then(|s| serde_json::from_str::<serde_json::Value>(&s).ok()) {
        Some(b) => b,
        None => {
            println!("MACHINERY-ERROR cannot read replay file {}", path);
            return 2;
        }
    };
    if body["log_level"].as_str() == Some("off") {
        // found by the pass that runs with logging switched off: replay under the same condition
        log::set_max_level(log::LevelFilter::Off);
    }
    let key = body["finding_key"].as_str().unwrap_or("").to_string();
    println!("replay of {} finding '{}': {}", prop, key, body["detail"].as_str().unwrap_or(""));
    let r = &body["replay"];
    match r["kind"].as_str().unwrap_or("") {
        "history" if !r["events_json"].is_null() => match crate::e3::replay_history(prop, r) {
            Ok(v) if v.is_empty() => {
                println!("history re-executed on the real client: no violation (the finding does not reproduce on this tree)");
                0
            }
            Ok(v) => {
                for (k, d) in &v {
                    println!("  violation key={} detail={}", k, d);
                }
                println!("VIOLATION property={} replay={}", prop, path);
                1
            }
            Err(e) => {
                println!("MACHINERY-ERROR {}", e);
                2
            }
        },
        "bytes" | "client-bytes" if r["bytes"].is_string() || r["perturbed"].is_string() || r["tampered"].is_string() || r["corrupted"].is_string() => {
            let hexs = ["bytes", "perturbed", "tampered", "corrupted"].iter().find_map(|k| r[*k].as_str()).unwrap();
            let bytes = crate::refs::crypto::unhex(hexs);
            let key_subj = crate::seeds::key().subject().unwrap();
            let mut rep = crate::util::Report::new();
            let decs = c03::decoders(&key_subj);
            for (o, d) in &decs {
                let res = crate::cu::decode_with(d, &bytes);
                println!("  {:<55} -> {}", o.show(), match res {
                    Ok(Ok((d, _))) => format!("Ok size {} attrs {:?}", d.size, d.attrs.iter().map(|a| a.kind()).collect::<Vec<_>>()),
                    Ok(Err(e)) => format!("Err {}", e),
                    Err(p) => format!("PANIC {}", p),
                });
            }
            c03::probe_decoders(&bytes, "replay", &decs, &mut rep);
            c18::relations(&bytes, "replay", &decs, &mut rep);
            if rep.violations.is_empty() {
                println!("decoder-side oracles (C03 size / panic relations, C18 option relations) hold for these bytes; property-specific oracle: re-run ./check {} quick", prop);
                0
            } else {
                for (k, (v, _)) in &rep.violations {
                    println!("  violation key={} detail={}", k, v.detail);
                }
                println!("VIOLATION property={} replay={}", prop, path);
                1
            }
        }
        _ => {
            // inputs that are described rather than encoded (menu messages, chunkings, chains): the case is re-found by
            // the deterministic quick enumeration, which visits it again
            println!("replaying through the deterministic quick enumeration of {}", prop);
            let ctx = RunCtx { property: prop.to_string(), tier: "quick".into(), seed: 0, start: std::time::Instant::now() };
            run(&ctx)
        }
    }
}
