pub mod c01;
pub mod c02;
pub mod c03;
pub mod c04;
pub mod c09;
pub mod c10;
pub mod c14;
pub mod c16;
pub mod c18;
pub mod c19;

use crate::util::RunCtx;

pub fn run(ctx: &RunCtx) -> i32 {
    match ctx.property.as_str() {
        "C01" => c01::run(ctx),
        "C02" => c02::run(ctx),
        "C03" => c03::run(ctx),
        "C04" => c04::run(ctx),
        "C05" => crate::e3::c05::run(ctx),
        "C06" => crate::e3::c06::run(ctx),
        "C07" => crate::e3::c07::run(ctx),
        "C08" => crate::e3::c08::run(ctx),
        "C09" => c09::run(ctx),
        "C10" => c10::run(ctx),
        "C11" => crate::e3::c11::run(ctx),
        "C12" => crate::e3::c12::run(ctx),
        "C13" => crate::e3::c13::run(ctx),
        "C14" => c14::run(ctx),
        "C15" => crate::e3::c15::run(ctx),
        "C16" => c16::run(ctx),
        "C17" => crate::e3::c17::run(ctx),
        "C18" => c18::run(ctx),
        "C19" => c19::run(ctx),
        other => {
            println!("MACHINERY-ERROR unknown property {}", other);
            2
        }
    }
}

pub fn replay(prop: &str, path: &str) -> i32 {
    println!("replay {} {}: not implemented yet", prop, path);
    2
}
