//! C01 Encode then decode returns the same message — E1, bounded exhaustive enumeration.

use crate::cu::{self, Opts};
use crate::menu::{self, KeySpec};
use crate::refs::codec::{from_subject, ref_encode, LMsg, L};
use crate::refs::crypto::hex;
use crate::util::{Finish, Report, RunCtx, Shared};
use rayon::prelude::*;
use serde_json::json;
use stun_rs::HMACKey;

/// Value class used in finding keys, so a recorded finding names the input class that fails.
pub fn value_class(l: &L) -> String {
    fn sclass(s: &str, quoted: bool) -> String {
        let mut c = String::new();
        if quoted {
            let b = s.as_bytes();
            let n = b.len();
            if n >= 2 && b[n - 2] == b'\\' && matches!(b[n - 1], b'"' | b' ' | b'\t' | b'\r' | b'\n') {
                // count backslashes before the last char: odd => escaped
                let bs = b[..n - 1].iter().rev().take_while(|x| **x == b'\\').count();
                if bs % 2 == 1 {
                    return "ends-in-escaped-removable-char".into();
                }
            }
        }
        c.push_str(if s.is_ascii() { "ascii" } else { "non-ascii" });
        c.push_str(match s.len() {
            0 => "/empty",
            1..=8 => "/short",
            9..=506 => "/mid",
            507..=509 => "/at-limit",
            _ => "/long",
        });
        c
    }
    match l {
        L::Nonce(s) | L::Realm(s) => sclass(s, true),
        L::UserName(s) | L::Software(s) | L::Padding(s) => sclass(s, false),
        L::ErrorCode(_, r) | L::AddressErrorCode(_, _, r) => sclass(r, false),
        _ => "any".into(),
    }
}

pub struct Keyed<'a> {
    pub spec: &'a KeySpec,
    pub subject: &'a HMACKey,
    pub raw: &'a [u8],
}

/// The C01 oracle for one message. Returns the encoded bytes when everything up to encoding went well.
pub fn roundtrip(lm: &LMsg, key: Option<&Keyed>, rep: &mut Report) -> Option<Vec<u8>> {
    rep.eval();
    let replay = || json!({"kind": "message", "msg": cu::show_msg(lm), "key": key.map(|k| k.spec.show())});
    // 1. construct
    let msg = match cu::build_msg(lm, key.map(|k| k.subject)) {
        Ok(m) => m,
        Err(e) => {
            let kind = lm.attrs.iter().find(|a| crate::refs::codec::to_subject(a, key.map(|k| k.subject)).is_err());
            let (k, c) = kind.map(|a| (a.kind(), value_class(a))).unwrap_or(("message", "any".into()));
            rep.violate(format!("constructor-refuses-legal-value/{}/{}", k, c), e, replay());
            return None;
        }
    };
    // 2. accessors give back what was constructed
    for (built, want) in msg.attributes().iter().zip(lm.attrs.iter()) {
        let got = from_subject(built);
        // (a REALM / NONCE given in the quoted form holds the content of the quoted form)
        let want = &menu::expected_constructed(want);
        if &got != want {
            rep.violate(
                format!("constructor-alters-value/{}/{}", want.kind(), value_class(want)),
                format!("built from {} reads back {}", want.show(), got.show()),
                replay(),
            );
            return None;
        }
    }
    // 3. encode
    let reference = ref_encode(lm, key.map(|k| k.raw));
    let enc = match cu::encode_into(&msg, reference.len() + 64, 0xAA) {
        Err(p) => {
            rep.violate(format!("encode-panics/{}", crate::util::panic_site(&p)), p, replay());
            return None;
        }
        Ok(Err(e)) => {
            let k = lm.attrs.first().map(|a| a.kind()).unwrap_or("none");
            rep.violate(format!("encode-fails/{}", k), e, replay());
            return None;
        }
        Ok(Ok((n, buf))) => {
            if n > buf.len() {
                rep.violate("encode-size-beyond-buffer", format!("{}", n), replay());
                return None;
            }
            buf[..n].to_vec()
        }
    };
    // 4. sizes
    let hdr = if enc.len() >= 4 { u16::from_be_bytes([enc[2], enc[3]]) as usize } else { usize::MAX };
    if enc.len() != 20usize.wrapping_add(hdr) || enc.len() % 4 != 0 {
        rep.violate(
            "size-relation/encoder",
            format!("encoded size {} header length {}", enc.len(), hdr),
            replay(),
        );
        return None;
    }
    // 5. decode (default decoder), compare
    let dec = cu::decoder(Opts::none(), None);
    let first_kind = lm.attrs.first().map(|a| a.kind()).unwrap_or("none");
    match cu::decode_with(&dec, &enc) {
        Err(p) => {
            rep.violate(format!("decode-panics/{}", crate::util::panic_site(&p)), p, replay());
            return None;
        }
        Ok(Err(e)) => {
            // name the attribute the decoder complained about through its position when possible
            let culprit = lm
                .attrs
                .iter()
                .find(|a| {
                    let single = LMsg { method: lm.method, class: lm.class, tid: lm.tid, attrs: vec![(*a).clone()] };
                    match cu::build_msg(&single, key.map(|k| k.subject)) {
                        Ok(m) => match cu::encode_into(&m, 70000, 0) {
                            Ok(Ok((n, b))) => !matches!(cu::decode_with(&dec, &b[..n]), Ok(Ok(_))),
                            _ => true,
                        },
                        Err(_) => true,
                    }
                })
                .map(|a| format!("{}/{}", a.kind(), value_class(a)))
                .unwrap_or_else(|| format!("{}/in-combination", first_kind));
            rep.violate(format!("decode-of-own-encoding-fails/{}", culprit), e, replay());
            return None;
        }
        Ok(Ok((d, decoded_msg))) => {
            // the decoder as a construction route: the DECODED message, encoded again, gives the same bytes (messages
            // without integrity / fingerprint attributes: a decoded MAC carries no key to recompute it with)
            if !lm.attrs.iter().any(|a| matches!(a, L::Mi | L::Sha | L::Fp)) {
                // (a USERNAME is decoded into its OpaqueString-enforced form: the expectation is the reference encoding of
                // the values the decoder is expected to return)
                let mapped = LMsg { method: lm.method, class: lm.class, tid: lm.tid, attrs: lm.attrs.iter().map(menu::expected_decoded).collect() };
                let want_again = if mapped.attrs == lm.attrs { enc.clone() } else { ref_encode(&mapped, None) };
                match cu::encode_into(&decoded_msg, want_again.len() + 8, 0x11) {
                    Ok(Ok((n, b))) if b[..n.min(b.len())] == want_again[..] => {}
                    other => {
                        let k = lm.attrs.iter().zip(decoded_msg.attributes().iter()).find(|(l, a)| {
                            let single = LMsg { method: lm.method, class: lm.class, tid: lm.tid, attrs: vec![menu::expected_decoded(l)] };
                            let want = ref_encode(&single, None);
                            let m1 = stun_rs::StunMessageBuilder::new(decoded_msg.method(), decoded_msg.class())
                                .with_transaction_id(*decoded_msg.transaction_id())
                                .with_attribute((*a).clone())
                                .build();
                            !matches!(cu::encode_into(&m1, want.len() + 8, 0), Ok(Ok((n, b))) if b[..n.min(b.len())] == want[..])
                        });
                        let kind = k.map(|(l, _)| format!("{}/{}", l.kind(), value_class(l))).unwrap_or_else(|| "in-combination".into());
                        rep.violate(
                            format!("decoded-message-reencodes-differently/{}", kind),
                            format!("{:?}", other.map(|r| r.map(|x| x.0))),
                            replay(),
                        );
                        return None;
                    }
                }
            }
            if d.size != enc.len() {
                rep.violate("size-relation/decoder", format!("decoder consumed {} of {}", d.size, enc.len()), replay());
                return None;
            }
            if d.method != lm.method || d.class != lm.class || d.tid != lm.tid {
                rep.violate(
                    "header-mismatch",
                    format!("method {:#x} class {} tid {}", d.method, d.class, hex(&d.tid)),
                    replay(),
                );
                return None;
            }
            let want: Vec<L> = lm.attrs.iter().map(menu::expected_decoded).collect();
            if d.attrs != want {
                let pos = d.attrs.iter().zip(want.iter()).position(|(a, b)| a != b);
                let (k, detail) = match pos {
                    Some(p) => (
                        format!("{}/{}", want[p].kind(), value_class(&want[p])),
                        format!("position {}: decoded {} expected {}", p, d.attrs[p].show(), want[p].show()),
                    ),
                    None => (
                        "attribute-count".to_string(),
                        format!("decoded {} attributes, expected {}", d.attrs.len(), want.len()),
                    ),
                };
                rep.violate(format!("decoded-attributes-differ/{}", k), detail, replay());
                return None;
            }
        }
    }
    // 6. integrity / fingerprint tail present, of that kind (checked above) and validates
    if lm.attrs.iter().any(|a| matches!(a, L::Mi | L::Sha | L::Fp)) {
        let o = Opts { ctx: true, key: true, validation: true, unknown_data: false, not_ignore: false };
        let vdec = cu::decoder(o, key.map(|k| k.subject));
        match cu::decode_with(&vdec, &enc) {
            Ok(Ok(_)) => {}
            Ok(Err(e)) => {
                rep.violate("own-encoding-fails-validation", e, replay());
                return None;
            }
            Err(p) => {
                rep.violate(format!("decode-panics/{}", crate::util::panic_site(&p)), p, replay());
                return None;
            }
        }
    }
    // 6b. attribute objects outlive the message: clones of the attributes of the encoded message in a message with another
    //     transaction id encode to that message's reference bytes
    {
        let mut lm2 = lm.clone();
        for b in lm2.tid.iter_mut() {
            *b ^= 0xA5;
        }
        let msg2 = cu::reissue(&msg, lm2.tid);
        let want2 = ref_encode(&lm2, key.map(|k| k.raw));
        match cu::encode_into(&msg2, want2.len() + 16, 0x77) {
            Ok(Ok((n, b))) if b[..n.min(b.len())] == want2[..] => {}
            other => {
                rep.violate("message-reissued-with-cloned-attributes-carries-wrong-bytes", format!("{:?}", other.map(|r| r.map(|x| x.0))), replay());
                return None;
            }
        }
    }
    // 7. the other encoder configurations (quick tier: one per message, chosen by a hash of the bytes; thorough: all):
    //    a reused encoder object and a default context give the same bytes; custom / random padding gives the same size
    //    and a message that decodes (and validates) to the same content
    let pick = (crate::util::hash64(&enc) % 4) as usize;
    for variant in 0..4 {
        if !ALL_ENCODER_VARIANTS.load(std::sync::atomic::Ordering::Relaxed) && variant != pick {
            continue;
        }
        let name = cu::ENCODER_VARIANTS[variant];
        let alt = match cu::encode_variant(&msg, reference.len() + 64, 0x3C, variant) {
            Ok(Ok((n, b))) if n <= b.len() => b[..n].to_vec(),
            other => {
                rep.violate(format!("encoder-configuration/{}/fails", name), format!("{:?}", other.map(|r| r.map(|x| x.0))), replay());
                return None;
            }
        };
        if variant < 2 {
            if alt != enc {
                rep.violate(format!("encoder-configuration/{}/bytes-differ", name), format!("{} vs {}", hex(&alt[..alt.len().min(64)]), hex(&enc[..enc.len().min(64)])), replay());
                return None;
            }
            continue;
        }
        if alt.len() != enc.len() {
            rep.violate(format!("encoder-configuration/{}/size-differs", name), format!("{} vs {}", alt.len(), enc.len()), replay());
            return None;
        }
        let o = Opts { ctx: true, key: true, validation: true, unknown_data: false, not_ignore: false };
        let vdec = cu::decoder(o, key.map(|k| k.subject));
        let want: Vec<L> = lm.attrs.iter().map(menu::expected_decoded).collect();
        match cu::decode_with(&vdec, &alt) {
            Ok(Ok((d, _))) if d.attrs == want && d.size == alt.len() && d.method == lm.method && d.class == lm.class && d.tid == lm.tid => {}
            other => {
                rep.violate(
                    format!("encoder-configuration/{}/decodes-differently", name),
                    format!("{:?}", other.map(|r| r.map(|x| x.0.attrs.len()))),
                    replay(),
                );
                return None;
            }
        }
    }
    rep.nontrivial_by_construction();
    Some(enc)
}

/// thorough tier: every message under all four extra encoder configurations
pub static ALL_ENCODER_VARIANTS: std::sync::atomic::AtomicBool = std::sync::atomic::AtomicBool::new(false);

fn tail_key(tail: &[L]) -> bool {
    tail.iter().any(|a| matches!(a, L::Mi | L::Sha))
}

/// Every public way of constructing a text attribute from the same text - `new`, `TryFrom<&str>`, `TryFrom<&String>`,
/// `TryFrom<String>` - gives the same verdict and, when accepted, the same value (by accessor and by the type's own equality),
/// and the message carrying it encodes and decodes back to it.
fn constructor_routes(rep: &mut Report) {
    use std::convert::TryFrom;
    use stun_rs::attributes::stun::{Nonce, Realm, Software, UserName};
    use stun_rs::StunAttribute;
    let mut texts: Vec<String> = menu::QUOTED_FORMS.iter().map(|s| s.to_string()).collect();
    texts.extend(["", "a", "ab", "example.org", "a b", "\u{c3}\u{a9}", "x\u{a0}y", "e\u{301}", "a\\\"b", "abc\\ ", "\u{30de}\u{30c8}\u{30ea}\u{30c3}\u{30af}\u{30b9}"].iter().map(|s| s.to_string()));
    for n in [127usize, 508, 509, 510, 763, 764] {
        texts.push(menu::rep('a', n));
        texts.push(format!("{} ", menu::rep('a', n)));
    }
    for t in &texts {
        macro_rules! routes {
            ($ty:ident, $kind:expr) => {{
                let rs: Vec<(&str, Result<StunAttribute, String>)> = vec![
                    ("new(&str)", $ty::new(t.as_str()).map(Into::into).map_err(|e| format!("{}", e))),
                    ("new(String)", $ty::new(t.clone()).map(Into::into).map_err(|e| format!("{}", e))),
                    ("TryFrom<&str>", $ty::try_from(t.as_str()).map(Into::into).map_err(|e| format!("{}", e))),
                    ("TryFrom<&String>", $ty::try_from(t).map(Into::into).map_err(|e| format!("{}", e))),
                    ("TryFrom<String>", $ty::try_from(t.clone()).map(Into::into).map_err(|e| format!("{}", e))),
                ];
                ($kind, rs)
            }};
        }
        let all: Vec<(&str, Vec<(&str, Result<StunAttribute, String>)>)> = match crate::util::guard(|| vec![routes!(Realm, "Realm"), routes!(Nonce, "Nonce"), routes!(UserName, "UserName"), routes!(Software, "Software")]) {
            Ok(v) => v,
            Err(p) => {
                rep.violate(format!("constructor-panics/{}", crate::util::panic_site(&p)), p, json!({"text": t}));
                continue;
            }
        };
        for (kind, rs) in all {
            rep.eval();
            let inp = |route: &str| json!({"kind": "text-constructor", "type": kind, "route": route, "text": t});
            let (_, canonical) = &rs[0];
            for (route, r) in rs.iter().skip(1) {
                match (canonical, r) {
                    (Ok(a), Ok(b)) => {
                        if from_subject(a) != from_subject(b) || cu::native_eq(a, b) == Some(false) {
                            rep.violate(format!("construction-routes-disagree/{}/{}", kind, route), format!("{} vs {}", from_subject(b).show(), from_subject(a).show()), inp(route));
                        }
                    }
                    (Err(_), Err(_)) => {}
                    _ => rep.violate(format!("construction-routes-disagree/{}/{}/accepted-by-one-only", kind, route), "", inp(route)),
                }
            }
            // whatever route built it: the message carrying it comes back
            for (route, r) in &rs {
                let Ok(attr) = r else { continue };
                rep.eval();
                let msg = stun_rs::StunMessageBuilder::new(stun_rs::MessageMethod::try_from(1).unwrap(), stun_rs::MessageClass::Request)
                    .with_transaction_id(stun_rs::TransactionId::from([3u8; 12]))
                    .with_attribute(attr.clone())
                    .build();
                let held = from_subject(attr);
                let want = menu::expected_decoded(&held);
                match cu::encode_into(&msg, 2048, 0x5A) {
                    Ok(Ok((n, b))) => match cu::decode_with(&cu::decoder(cu::Opts::default_ctx(), None), &b[..n]) {
                        Ok(Ok((d, _))) if d.size == n && d.attrs.len() == 1 && d.attrs[0] == want => {
                            rep.sym("constructor-routes");
                            rep.nontrivial_by_construction();
                        }
                        other => rep.violate(
                            format!("value-built-through-{}-does-not-come-back/{}", route, kind),
                            format!("held {} decoded {:?}", held.show(), other.map(|r| r.map(|(d, _)| (d.attrs.iter().map(|a| a.show()).collect::<Vec<_>>(), d.size)))),
                            inp(route),
                        ),
                    },
                    other => rep.violate(format!("value-built-through-{}-does-not-encode/{}", route, kind), format!("{:?}", other.map(|r| r.map(|x| x.0))), inp(route)),
                }
            }
        }
    }
}

/// After a refusal: an encode that fails for lack of space, a decode of a truncated message, a decode that fails in a later
/// attribute and a decode that fails validation - each of a message whose XOR-* address attribute had already been handled -
/// are followed, on the same thread, by ordinary round trips of messages with other transaction ids (IPv6 and IPv4 XOR-*
/// addresses, text attributes). A refused call leaves nothing behind that could change the next one.
fn after_refusals(keyed: &Keyed, rep: &mut Report) {
    use crate::refs::codec::Addr;
    let v6a = Addr::V6([0x20, 0x01, 0x0d, 0xb8, 0x12, 0x34, 0x56, 0x78, 0x00, 0x11, 0x22, 0x33, 0x44, 0x55, 0x66, 0x77], 32853);
    let v6b = Addr::V6([0xfe, 0x80, 0, 0, 0, 0, 0, 0, 0xab, 0xcd, 0xef, 0x01, 0x23, 0x45, 0x67, 0x89], 3478);
    let v4 = Addr::V4([192, 0, 2, 1], 32853);
    let tid_a = [0xA1u8, 0xB2, 0xC3, 0xD4, 0xE5, 0xF6, 0x07, 0x18, 0x29, 0x3A, 0x4B, 0x5C];
    let tid_b = [0x5Du8, 0x11, 0x7F, 0x80, 0x00, 0xFF, 0x3C, 0x42, 0x99, 0x1E, 0x6B, 0xD0];
    let mut victims: Vec<LMsg> = vec![];
    for a in [&v6a, &v6b, &v4] {
        victims.push(menu::lmsg(1, 2, tid_b, vec![L::XorMappedAddress(a.clone())]));
        victims.push(menu::lmsg(3, 2, tid_b, vec![L::Software("s".into()), L::XorPeerAddress(a.clone()), L::XorRelayedAddress(a.clone())]));
    }
    victims.push(menu::lmsg(1, 3, tid_b, vec![L::ErrorCode(401, "x".into()), L::Realm("example.org".into()), L::Nonce("n".into())]));
    let plain = cu::decoder(cu::Opts::default_ctx(), None);
    let validating = cu::decoder(cu::Opts { ctx: true, key: true, validation: true, unknown_data: false, not_ignore: false }, Some(keyed.subject));
    let first = menu::lmsg(1, 2, tid_a, vec![L::XorMappedAddress(v6a.clone()), L::Software("abcdefgh".into())]);
    let first_bytes = ref_encode(&first, None);
    let with_fp = ref_encode(&menu::lmsg(1, 2, tid_a, vec![L::XorPeerAddress(v6b.clone()), L::Fp]), None);
    let refusals: Vec<(&str, Box<dyn Fn() -> bool + '_>)> = vec![
        ("encode-into-a-short-buffer", Box::new(|| cu::build_msg(&first, None).ok().map(|m| !matches!(cu::encode_into(&m, first_bytes.len() - 2, 0), Ok(Ok(_)))).unwrap_or(false))),
        ("decode-of-a-truncated-message", Box::new(|| !matches!(cu::decode_with(&plain, &first_bytes[..first_bytes.len() - 3]), Ok(Ok(_))))),
        ("decode-failing-in-a-later-attribute", Box::new(|| {
            let mut b = ref_encode(&menu::lmsg(1, 3, tid_a, vec![L::XorMappedAddress(v4.clone()), L::ErrorCode(420, "".into())]), None);
            let n = b.len();
            b[n - 2] = 0x07; // error class 7
            !matches!(cu::decode_with(&plain, &b), Ok(Ok(_)))
        })),
        ("decode-failing-validation", Box::new(|| {
            let mut b = with_fp.clone();
            let n = b.len();
            b[n - 1] ^= 0x01;
            !matches!(cu::decode_with(&validating, &b), Ok(Ok(_)))
        })),
    ];
    for (name, refuse) in &refusals {
        for v in &victims {
            if !refuse() {
                rep.violate(format!("refusal-expected-but-the-call-succeeded/{}", name), "", json!({"refusal": name}));
                continue;
            }
            let before = rep.violations.len();
            roundtrip(v, None, rep);
            if rep.violations.len() == before {
                rep.sym("after-refusals");
            } else {
                rep.sym("after-refusals-violation");
            }
        }
    }
}

pub fn run(ctx: &RunCtx) -> i32 {
    let thorough = ctx.thorough();
    ALL_ENCODER_VARIANTS.store(thorough, std::sync::atomic::Ordering::Relaxed);
    let full = menu::body_menu(true);
    let reduced = menu::body_menu(false);
    let spec = KeySpec::Short("VOkJxbRl1RmTxUk/WvJxBt");
    let subj = spec.subject().expect("menu key");
    let raw = spec.ref_bytes();
    let keyed = Keyed { spec: &spec, subject: &subj, raw: &raw };
    let shared = Shared::new();
    let headers = menu::header_menu(true);

    // (a1) every single attribute x every tail x every header
    {
        let mut r = Report::new();
        for (m, c, tid) in &headers {
            for tail in menu::TAILS {
                let k = if tail_key(tail) { Some(&keyed) } else { None };
                // empty body
                let mut attrs = vec![];
                attrs.extend_from_slice(tail);
                roundtrip(&menu::lmsg(*m, *c, *tid, attrs), k, &mut r);
                for a in &full {
                    let mut attrs = vec![a.clone()];
                    attrs.extend_from_slice(tail);
                    let lm = menu::lmsg(*m, *c, *tid, attrs);
                    if roundtrip(&lm, k, &mut r).is_some() {
                        r.sym(a.kind());
                    }
                    if r.samples.len() < 2 {
                        r.sample(cu::show_msg(&lm));
                    }
                }
            }
        }
        r.add_extra("singles", (headers.len() * menu::TAILS.len() * (full.len() + 1)) as u64);
        shared.merge(r);
    }
    // (a2) every ordered pair over the full menu x every tail
    let pair_tails: Vec<&[L]> = menu::TAILS.to_vec();
    (0..full.len()).into_par_iter().for_each(|i| {
        let mut r = Report::new();
        for j in 0..full.len() {
            for tail in &pair_tails {
                let mut attrs = vec![full[i].clone(), full[j].clone()];
                attrs.extend_from_slice(tail);
                let lm = menu::lmsg(0x001, 0, menu::RFC5769_TID, attrs);
                let k = if tail_key(tail) { Some(&keyed) } else { None };
                roundtrip(&lm, k, &mut r);
                if i == 7 && j == 40 && tail.len() == 3 {
                    r.sample(cu::show_msg(&lm));
                }
            }
        }
        r.add_extra("pairs", (full.len() * pair_tails.len()) as u64);
        shared.merge(r);
    });
    // (a3) every ordered triple: reduced menu (quick), full menu with tails {none, all} (thorough)
    let (tri, tri_tails): (&Vec<L>, Vec<&[L]>) = if thorough {
        (&full, vec![menu::TAILS[0], menu::TAILS[7]])
    } else {
        (&reduced, vec![menu::TAILS[0], menu::TAILS[7]])
    };
    (0..tri.len()).into_par_iter().for_each(|i| {
        let mut r = Report::new();
        for j in 0..tri.len() {
            for k3 in 0..tri.len() {
                for tail in &tri_tails {
                    let mut attrs = vec![tri[i].clone(), tri[j].clone(), tri[k3].clone()];
                    attrs.extend_from_slice(tail);
                    let lm = menu::lmsg(0x003, 2, [0x5a; 12], attrs);
                    let k = if tail_key(tail) { Some(&keyed) } else { None };
                    roundtrip(&lm, k, &mut r);
                    if i == 3 && j == 9 && k3 == 21 && tail.is_empty() {
                        r.sample(cu::show_msg(&lm));
                    }
                }
            }
        }
        r.add_extra("triples", (tri.len() * tri.len() * tri_tails.len()) as u64);
        shared.merge(r);
    });
    // (b) scalar sweeps, one attribute per message
    let sweeps: Vec<Box<dyn Fn(&mut Report) + Sync + Send>> = vec![
        Box::new(|r| {
            for v in 0..=u16::MAX {
                roundtrip(&menu::lmsg(1, 0, [1; 12], vec![L::ChannelNumber(v)]), None, r);
                roundtrip(&menu::lmsg(1, 0, [1; 12], vec![L::ResponsePort(v)]), None, r);
                roundtrip(&menu::lmsg(1, 0, [1; 12], vec![L::PasswordAlgorithm(v, vec![])]), None, r);
                roundtrip(&menu::lmsg(1, 3, [1; 12], vec![L::UnknownAttributes(vec![v])]), None, r);
            }
            r.sym_n("sweep-u16", 4 * 65536);
        }),
        Box::new(|r| {
            for c in 300..=699u16 {
                roundtrip(&menu::lmsg(1, 3, [2; 12], vec![L::ErrorCode(c, "x".into())]), None, r);
                roundtrip(&menu::lmsg(1, 3, [2; 12], vec![L::AddressErrorCode(1, c, "".into())]), None, r);
                roundtrip(&menu::lmsg(1, 3, [2; 12], vec![L::AddressErrorCode(2, c, "yz".into())]), None, r);
            }
            r.sym_n("sweep-error-codes", 3 * 400);
        }),
        Box::new(|r| {
            for ty in 0..=127u8 {
                for code in 0..=511u16 {
                    roundtrip(&menu::lmsg(1, 1, [3; 12], vec![L::Icmp(ty, code, [ty, 0, 1, 2])]), None, r);
                }
            }
            r.sym_n("sweep-icmp", 128 * 512);
        }),
        Box::new(|r| {
            for n in 0..=509usize {
                let s = menu::rep('s', n);
                roundtrip(&menu::lmsg(1, 0, [4; 12], vec![L::Software(s.clone())]), None, r);
                roundtrip(&menu::lmsg(1, 0, [4; 12], vec![L::Nonce(s.clone())]), None, r);
                if n > 0 {
                    roundtrip(&menu::lmsg(1, 0, [4; 12], vec![L::Realm(s.clone())]), None, r);
                }
                roundtrip(&menu::lmsg(1, 3, [4; 12], vec![L::ErrorCode(500, s.clone())]), None, r);
                if (1..=508).contains(&n) {
                    roundtrip(&menu::lmsg(1, 0, [4; 12], vec![L::UserName(s.clone())]), None, r);
                }
                // two-byte characters across the same lengths
                let e = menu::rep('\u{e9}', n / 2);
                roundtrip(&menu::lmsg(1, 0, [4; 12], vec![L::Software(e.clone())]), None, r);
                roundtrip(&menu::lmsg(1, 3, [4; 12], vec![L::ErrorCode(500, e)]), None, r);
            }
            r.sym_n("sweep-string-lengths", 510 * 7);
        }),
        Box::new(|r| {
            for n in 0..=1024usize {
                let b: Vec<u8> = (0..n).map(|x| (x * 7) as u8).collect();
                roundtrip(&menu::lmsg(1, 1, [5; 12], vec![L::Data(b.clone())]), None, r);
                roundtrip(&menu::lmsg(1, 1, [5; 12], vec![L::MobilityTicket(b)]), None, r);
                roundtrip(&menu::lmsg(1, 0, [5; 12], vec![L::Padding(menu::rep('p', n))]), None, r);
            }
            r.sym_n("sweep-blob-lengths", 1025 * 3);
        }),
        Box::new(|r| {
            // (c) all 16384 (method, class) pairs, with and without a body
            for m in 0..=0xFFFu16 {
                for c in 0..4u8 {
                    roundtrip(&menu::lmsg(m, c, [6; 12], vec![]), None, r);
                    roundtrip(&menu::lmsg(m, c, [6; 12], vec![L::Priority(m as u32), L::Software("s".into())]), None, r);
                }
            }
            r.sym_n("sweep-message-types", 2 * 16384);
        }),
        Box::new(|r| {
            for lm in menu::extra_sweep_msgs() {
                roundtrip(&lm, None, r);
            }
            r.sym_n("sweep-non-last-lengths-addresses-bits-lists", 1);
        }),
        Box::new(|r| {
            // XOR attributes under every id of the walking-bit family
            for tid in menu::xor_tids() {
                for a in menu::addrs(true) {
                    for l in [L::XorMappedAddress(a.clone()), L::XorPeerAddress(a.clone()), L::XorRelayedAddress(a.clone())] {
                        roundtrip(&menu::lmsg(1, 2, tid, vec![l]), None, r);
                    }
                }
            }
            r.sym_n("sweep-xor-ids", 1);
        }),
    ];
    {
        let mut r = Report::new();
        constructor_routes(&mut r);
        shared.merge(r);
    }
    {
        let mut r = Report::new();
        after_refusals(&keyed, &mut r);
        shared.merge(r);
    }
    sweeps.par_iter().for_each(|f| {
        let mut r = Report::new();
        f(&mut r);
        shared.merge(r);
    });
    // (d) deep messages: large offsets / indices, repeats, rotations of every kind, quads (menu::deep_msgs)
    {
        let deep = menu::deep_msgs(thorough);
        let n = deep.len();
        deep.par_chunks(64).for_each(|ch| {
            let mut r = Report::new();
            for lm in ch {
                roundtrip(lm, None, &mut r);
                let mut with_tail = lm.clone();
                with_tail.attrs.extend_from_slice(menu::TAILS[7]);
                roundtrip(&with_tail, Some(&keyed), &mut r);
            }
            shared.merge(r);
        });
        let mut r = Report::new();
        r.sym_n("deep-messages", 2 * n as u64);
        shared.merge(r);
    }
    // offset family (menu::offset_msgs): a subject attribute behind a filler at every body offset of menu::offset_points,
    // including message offsets beyond 65,535; and XOR-* addresses whose wire form is a special address
    {
        let xs = vec![vec![L::Priority(1)], vec![L::Software("ab".into()), L::XorMappedAddress(menu::addrs(true)[1].clone())]];
        let tails = vec![vec![], vec![L::Mi, L::Sha, L::Fp]];
        let msgs = menu::offset_msgs(thorough, &xs, &tails, [0x71; 12]);
        let n = msgs.len();
        msgs.par_chunks(32).for_each(|ch| {
            let mut r = Report::new();
            for lm in ch {
                let k = if lm.attrs.iter().any(|a| matches!(a, L::Mi | L::Sha)) { Some(&keyed) } else { None };
                roundtrip(lm, k, &mut r);
            }
            shared.merge(r);
        });
        let mut r = Report::new();
        r.sym_n("offset-family", n as u64);
        for tid in [menu::RFC5769_TID, [0u8; 12], [0xFF; 12]] {
            for a in menu::xor_special_addrs(&tid) {
                for l in [L::XorMappedAddress(a.clone()), L::XorPeerAddress(a.clone()), L::XorRelayedAddress(a.clone()), L::MappedAddress(a.clone())] {
                    roundtrip(&menu::lmsg(1, 2, tid, vec![l.clone()]), None, &mut r);
                    roundtrip(&menu::lmsg(1, 2, tid, vec![l, L::Priority(9)]), None, &mut r);
                }
            }
        }
        r.sym("xor-special-addresses");
        shared.merge(r);
    }
    // keys: each tail under each key of the menu with two bodies
    {
        let mut r = Report::new();
        for ks in menu::key_menu(true) {
            let subj = match ks.subject() {
                Ok(k) => k,
                Err(e) => {
                    r.violate("key-constructor-refuses-legal-credentials", e, json!({"key": ks.show()}));
                    continue;
                }
            };
            let raw = ks.ref_bytes();
            let kk = Keyed { spec: &ks, subject: &subj, raw: &raw };
            for tail in menu::TAILS.iter().filter(|t| tail_key(t)) {
                for body in [vec![], vec![L::Software("abc".into())], vec![L::UserName("evtj:h6vY".into()), L::Priority(1)]] {
                    let mut attrs = body.clone();
                    attrs.extend_from_slice(tail);
                    roundtrip(&menu::lmsg(1, 0, menu::RFC5769_TID, attrs), Some(&kk), &mut r);
                }
            }
            r.sym("key-menu");
        }
        shared.merge(r);
    }

    let mut rep = shared.into_inner();
    rep.outcome(format!("violations:{}", rep.violations.len()));
    rep.outcome("roundtrip-ok");
    let n_full = full.len();
    let n_tri = tri.len();
    crate::util::finish(
        ctx,
        rep,
        Finish {
            level: "exploration",
            rule: format!(
                "every message with 0..=2 body attributes over the {}-entry value menu in every order x 8 tails, every triple over the {}-entry menu x 2 tails, every header of the header menu on singles, full scalar sweeps (u16 fields, error codes 300..=699, 128x512 ICMP, string lengths 0..=509, blob lengths 0..=1024, all 16384 message types, XOR under 123 ids; as non-last and as last attribute: every blob length 0..=1030, every string length, a walking byte through every address byte of all 7 address attributes, every single-bit integer value and its complement, lists of every length 0..=8, UNKNOWN-ATTRIBUTES lists of every length up to 600 and of 1000 / 4096 / 16,384 / 32,760 entries, PASSWORD-ALGORITHMS lists of every length up to 200 and of 1000 / 4096 entries); deep messages without and with the full tail (every reduced-menu value at body offsets around 256 / 1024 / 4096 (thorough: 256..32768 in powers of two) behind one long filler and behind a run of 8-byte attributes, 3..=257 (thorough 1000) copies of 10 attributes, every rotation and reversal of one-value-per-kind, every 4-sequence over 9 kinds); the offset family (PRIORITY, and SOFTWARE + XOR-MAPPED-ADDRESS, behind a filler - one DATA blob or a run of 512-byte SOFTWARE attributes - at every 4-aligned body offset 0..=4200 (thorough 16,400), around every multiple of 4096 (thorough 1024) and at every offset 65,300..=65,532, without and with the full tail, bodies up to the 65,532-byte maximum); XOR-* addresses whose wire form is ::, ::1, ::ffff:a.b.c.d or all ones under 3 ids; every public construction route of the four text attributes (new from &str / String, TryFrom<&str>, <&String>, <String>) on 30-odd texts incl. white space around the text, the quoted forms and the length limits: same verdict, same value, and the message carrying it comes back; round trips right after a refused call on the same thread (short-buffer encode, truncated decode, decode failing in a later attribute / in validation, each of a message whose XOR-* address had already been handled); clones of the attributes of the encoded message, re-issued under another transaction id, encode to that message's reference bytes; the message obtained from the decoder is encoded again and must give the same bytes (messages without integrity / fingerprint attributes); every message is additionally encoded under another encoder configuration (one encoder object reused for all messages / default context: same bytes; custom padding 0xA5 / random padding: same size, decodes and validates to the same content; quick tier one configuration per message chosen by a hash of its bytes, thorough all four); a case is non-trivial when it was built, encoded, decoded and compared equal (index tuples are distinct by construction)",
                n_full, n_tri
            ),
            assumptions: vec![
                "values outside the menus and sweeps are not covered (menu has one entry per limit / padding residue / address family / flag visible in the code)".into(),
                "USERNAME is compared after OpaqueString enforcement (hand-written R-strings table)".into(),
                "PASSWORD-ALGORITHM with empty parameters and with no parameters are the same logical value".into(),
            ],
            required_symbols: vec!["deep-messages", "offset-family", "xor-special-addresses", "sweep-u16", "sweep-message-types", "sweep-non-last-lengths-addresses-bits-lists", "key-menu", "Nonce", "XorMappedAddress", "Icmp", "constructor-routes", "after-refusals"],
            min_outcomes: 2,
            exhaustive: true,
            bounds: json!({"L_full_menu": 2, "L_triples_menu": n_tri, "menu": n_full, "tails": 8}),
        },
    )
}
