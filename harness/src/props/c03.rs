//! C03 Untrusted bytes never crash the decoder, the client or the reassembler — E2 (+ E3 for the client).

use crate::cu::{self, Opts};
use crate::faults::{self, Families};
use crate::refs::crypto::hex;
use crate::seeds;
use crate::util::{guard, Finish, Report, RunCtx, Shared};
use rayon::prelude::*;
use serde_json::json;
use stun_rs::attributes::stun::{Fingerprint, MessageIntegrity, MessageIntegritySha256};
use stun_rs::MessageDecoder;

pub fn decoders(key: &stun_rs::HMACKey) -> Vec<(Opts, MessageDecoder)> {
    cu::all_opts().into_iter().map(|o| (o, cu::decoder(o, Some(key)))).collect()
}

/// Decoder-side oracle for one byte string.
pub fn probe_decoders(bytes: &[u8], fault: &str, decs: &[(Opts, MessageDecoder)], rep: &mut Report) {
    let mut any_ok = false;
    let replay = || json!({"kind": "bytes", "bytes": hex(bytes), "fault": fault});
    for (o, dec) in decs {
        rep.eval();
        match cu::decode_with(dec, bytes) {
            Err(p) => rep.violate(format!("decoder-panics/{}", crate::util::panic_site(&p)), format!("{} under {}", p, o.show()), replay()),
            Ok(Err(_)) => {
                rep.add_extra("decode_errors", 1);
            }
            Ok(Ok((d, _))) => {
                let hdr = u16::from_be_bytes([bytes[2], bytes[3]]) as usize;
                if d.size != 20 + hdr || d.size > bytes.len() {
                    rep.violate("size-relation", format!("size {} header {} input {}", d.size, hdr, bytes.len()), replay());
                    continue;
                }
                let mut ext = bytes[..d.size].to_vec();
                let exact = cu::decode_with(dec, &ext).ok().and_then(|r| r.ok()).map(|x| x.0);
                ext.extend_from_slice(&[0xde, 0xad, 0xbe, 0xef, 0x00]);
                let junk = cu::decode_with(dec, &ext).ok().and_then(|r| r.ok()).map(|x| x.0);
                if exact.as_ref() != Some(&d) || junk.as_ref() != Some(&d) {
                    rep.violate("result-depends-on-bytes-after-the-message", o.show(), replay());
                    continue;
                }
                any_ok = true;
                rep.add_extra("successful_decodes", 1);
            }
        }
    }
    if any_ok {
        // distinct byte strings that some configuration decoded successfully (and that met the relations)
        rep.nontrivial(bytes);
    }
    for (name, r) in [
        ("MessageIntegrity", guard(|| stun_rs::get_input_text::<MessageIntegrity>(bytes).map(|v| v.len()))),
        ("MessageIntegritySha256", guard(|| stun_rs::get_input_text::<MessageIntegritySha256>(bytes).map(|v| v.len()))),
        ("Fingerprint", guard(|| stun_rs::get_input_text::<Fingerprint>(bytes).map(|v| v.len()))),
    ] {
        rep.eval();
        match r {
            Err(p) => rep.violate(format!("get_input_text-panics/{}/{}", name, crate::util::panic_site(&p)), p, replay()),
            Ok(Some(n)) if n > bytes.len() => rep.violate("get_input_text-longer-than-input", name, replay()),
            _ => {}
        }
    }
}

/// Reassembler-side oracle: every 1-cut chunking (2-cut when the header or the length changed).
pub fn probe_reassembler(bytes: &[u8], two_cuts: bool, rep: &mut Report) {
    let k = if two_cuts { 2 } else { 1 };
    // buffer exactly as long as the byte string, one byte shorter (the packet the header announces may not fit) and
    // the 20-byte minimum
    let mut bufs = vec![20usize, bytes.len().max(20), bytes.len().saturating_sub(1).max(20)];
    bufs.sort();
    bufs.dedup();
    for buf in bufs {
        super::c16::for_cuts(bytes.len(), k, &mut |cuts| super::c16::check(bytes, cuts, buf, "mutated-stream", rep));
    }
}

pub fn run(ctx: &RunCtx) -> i32 {
    let thorough = ctx.thorough();
    let key = seeds::key().subject().expect("menu key");
    let all = seeds::seeds(thorough);
    let shared = Shared::new();
    let n_seeds = all.len();
    all.par_iter().for_each(|s| {
        let decs = decoders(&key);
        let mut r = Report::new();
        probe_decoders(&s.bytes, "none", &decs, &mut r);
        probe_reassembler(&s.bytes, true, &mut r);
        let n = faults::single_faults(&s.bytes, Families::all(), &mut |m, class| {
            probe_decoders(m, class, &decs, &mut r);
            // the reassembler only reads the 20 header bytes and the total length: body-only faults behave like the seed
            let hdr_changed = m.len() != s.bytes.len() || m[..20.min(m.len())] != s.bytes[..20.min(m.len())];
            if hdr_changed {
                probe_reassembler(m, m.len() <= 28, &mut r);
            }
            r.sym(class);
        });
        r.add_extra("mutants", n);
        if s.label == "Nonce+0tail" || s.label == "rfc5769-2.2" {
            r.sample(json!({"seed": s.label, "seed_bytes": hex(&s.bytes), "single_fault_mutants": n}));
        }
        // pairs of faults: single-attribute seeds (and vectors / unknown-attribute messages) up to 64 bytes
        if thorough && s.bytes.len() <= 64 && s.label.matches('+').count() <= 1 {
            let n2 = faults::double_faults(&s.bytes, &mut |m, class| {
                probe_decoders(m, class, &decs, &mut r);
                r.sym(class);
            });
            r.add_extra("double_fault_mutants", n2);
        }
        shared.merge(r);
    });
    // exhaustive family: valid 20-byte header + every 1- and 2-byte body (header length = body length)
    {
        let hdr: Vec<u8> = {
            let mut h = vec![0x01, 0x01, 0, 0, 0x21, 0x12, 0xA4, 0x42];
            h.extend_from_slice(&[3u8; 12]);
            h
        };
        (0..=255u16).into_par_iter().for_each(|a| {
            let decs = decoders(&key);
            let mut r = Report::new();
            let mut m = hdr.clone();
            m.push(a as u8);
            m[3] = 1;
            probe_decoders(&m, "header+1-byte-body", &decs, &mut r);
            if thorough || a % 16 == 0 {
                for b in 0..=255u16 {
                    let mut m2 = hdr.clone();
                    m2.push(a as u8);
                    m2.push(b as u8);
                    m2[3] = 2;
                    probe_decoders(&m2, "header+2-byte-body", &decs, &mut r);
                }
            }
            r.sym("tiny-bodies");
            shared.merge(r);
        });
    }
    // offset family: integrity / fingerprint tails (valid values) behind a filler at every body offset of
    // menu::offset_points (scratch buffers, 16-bit offsets and page-sized shortcuts live here), each with four cheap
    // faults: truncated by 1 / 4 / 8 bytes, last byte flipped, header length +4 / -4
    {
        use crate::refs::codec::{ref_encode, L};
        let raw = seeds::key().ref_bytes();
        let xs: Vec<Vec<L>> = vec![vec![]];
        let tails = vec![vec![L::Fp], vec![L::Mi], vec![L::Sha, L::Fp], vec![L::Mi, L::Sha, L::Fp], vec![L::Fp, L::Software("after".into())]];
        let msgs = crate::menu::offset_msgs(thorough, &xs, &tails, [0x73; 12]);
        msgs.par_chunks(16).for_each(|ch| {
            let decs = decoders(&key);
            let mut r = Report::new();
            for lm in ch {
                let b = ref_encode(lm, Some(&raw));
                probe_decoders(&b, "offset-family", &decs, &mut r);
                for cut in [1usize, 4, 8] {
                    probe_decoders(&b[..b.len() - cut], "offset-family-truncated", &decs, &mut r);
                }
                let mut m = b.clone();
                let n = m.len();
                m[n - 1] ^= 0x01;
                probe_decoders(&m, "offset-family-last-byte", &decs, &mut r);
                for d in [4i32, -4] {
                    let mut m = b.clone();
                    let l = (u16::from_be_bytes([m[2], m[3]]) as i32 + d).clamp(0, 65535) as u16;
                    m[2..4].copy_from_slice(&l.to_be_bytes());
                    probe_decoders(&m, "offset-family-header-length", &decs, &mut r);
                }
            }
            r.sym("offset-family");
            shared.merge(r);
        });
    }
    // kind sequences: every sequence over {ordinary, MESSAGE-INTEGRITY, MESSAGE-INTEGRITY-SHA256, FINGERPRINT} up to length 4
    // (thorough 5), with all-correct and with all-wrong values - protection attributes in every order, repeated, and behind
    // one another (where validating and not-ignoring configurations meet attributes the ordering rule would have dropped) -
    // each also truncated by 4 and with its last byte flipped
    {
        use crate::refs::codec::{ref_encode_with, LMsg, Mac, L};
        let raw = seeds::key().ref_bytes();
        let max_len = if thorough { 5 } else { 4 };
        for len in 1..=max_len {
            (0..(1u32 << (2 * len))).into_par_iter().for_each(|n| {
                let decs = decoders(&key);
                let mut r = Report::new();
                let mut x = n;
                let mut ls = vec![];
                for i in 0..len {
                    ls.push(match x & 3 {
                        0 => L::Priority(i as u32),
                        1 => L::Mi,
                        2 => L::Sha,
                        _ => L::Fp,
                    });
                    x >>= 2;
                }
                let lm = LMsg { method: 1, class: 2, tid: [9; 12], attrs: ls };
                for mac in [Mac::Good, Mac::Bad] {
                    let b = ref_encode_with(&lm, Some(&raw), &vec![mac; len]);
                    probe_decoders(&b, "kind-sequence", &decs, &mut r);
                    probe_decoders(&b[..b.len() - 4], "kind-sequence-truncated", &decs, &mut r);
                    let mut m = b.clone();
                    let k = m.len() - 1;
                    m[k] ^= 0x01;
                    probe_decoders(&m, "kind-sequence-last-byte", &decs, &mut r);
                }
                r.sym("kind-sequences");
                shared.merge(r);
            });
        }
    }
    let mut rep = shared.into_inner();
    // client part (E3): added by e3::c03_client when available
    crate::e3::c03_client::run(ctx, &mut rep);
    rep.add_extra("seeds", n_seeds as u64);
    rep.outcome("no-panic");
    rep.outcome(format!("violations:{}", rep.violations.len()));
    crate::util::finish(
        ctx,
        rep,
        Finish {
            level: "fault_enumeration",
            rule: format!("{} seeds (reference-encoded single / pair messages over the menus x tails, RFC 5769 vectors, unknown-attribute messages) and every {{ordinary, MI, SHA256, FINGERPRINT}} sequence up to length 4 (thorough 5) with all-correct / all-wrong values (plus truncated by 4 and last byte flipped); every single fault of the alphabet {{bit flip, byte := 00/FF/7F/80/01/02, truncation to every length, 8 header-length edits, 12 edits of every attribute length and 7 of every nested length, 19 UTF-8 / quoting / normalisation injections at every offset of every string value, delete / duplicate / move of every attribute}} at every position{}; each mutant decoded under 16 option combinations + no context (size relation and independence of trailing bytes checked on success), passed to get_input_text x3, and (when the 20 header bytes or the length changed; the reassembler reads nothing else) to the reassembler under every 1-cut (<=28 bytes: 2-cut) chunking x 3 buffers (20, len-1, len) against the reference splitter; valid header + every 1-byte and {} 2-byte bodies; the offset family (5 integrity / fingerprint tails with valid values behind a filler at every 4-aligned body offset 0..=4200 (thorough 16,400), around multiples of 4096 (1024), every offset 65,300..=65,532, each also truncated by 1 / 4 / 8 bytes, with the last byte flipped and the header length +-4); client part: see coverage.client. Non-trivial = distinct byte strings that at least one configuration decoded successfully and that satisfied the relations (plus distinct chunkings whose per-call results matched the splitter)", n_seeds, if thorough { " and all pairs of byte substitutions on seeds <=64 bytes" } else { "" }, if thorough { "every" } else { "4096" }),
            assumptions: vec!["the statement's 'random bytes' are replaced by these deterministic families".into()],
            required_symbols: vec!["bit-flip", "byte-substitution", "truncation", "header-length", "attribute-length", "nested-length", "string-injection", "attribute-delete", "attribute-duplicate", "attribute-move", "tiny-bodies", "offset-family", "kind-sequences", "client-deliveries", "client-long-replies", "long-term/retry-after-401-cookie", "short-term/learned-SHA256"],
            min_outcomes: 2,
            exhaustive: true,
            bounds: json!({"seeds": n_seeds, "faults_per_mutant": if thorough {2} else {1}}),
        },
    )
}
