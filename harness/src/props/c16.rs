//! C16 Stream reassembly yields the same packets however the stream is chunked.

use crate::menu;
use crate::refs::codec::{ref_encode, L};
use crate::refs::crypto::hex;
use crate::util::{guard, Finish, Report, RunCtx, Shared};
use rayon::prelude::*;
use serde_json::json;
use stun_agent::{StunPacketDecodedValue, StunPacketDecoder, StunPacketErrorType};

#[derive(Debug, Clone, PartialEq, Eq)]
enum Step {
    Decoded { packet: Vec<u8>, consumed: usize },
    More(Option<usize>),
    Err { small: bool, consumed: usize, size: usize, buf_len: usize, head: Vec<u8> },
}

fn packet(attr_bytes: usize, tag: u8) -> Vec<u8> {
    let attrs = if attr_bytes == 0 { vec![] } else { vec![L::Data((0..attr_bytes - 4).map(|i| (i as u8) ^ tag).collect())] };
    ref_encode(&menu::lmsg(1, 2, [tag; 12], attrs), None)
}

/// Reference splitter: what each decode call must return, from the header length fields alone.
fn reference(stream: &[u8], cuts: &[usize], bufsize: usize) -> Vec<Step> {
    let mut out = vec![];
    let mut pos = 0usize; // start of the current packet in the stream
    let mut have = 0usize; // bytes of the current packet already handed over
    let mut bounds = vec![0usize];
    bounds.extend_from_slice(cuts);
    bounds.push(stream.len());
    'chunks: for w in bounds.windows(2) {
        let (mut a, b) = (w[0], w[1]);
        loop {
            let n = b - a;
            if have < 20 && have + n < 20 {
                out.push(Step::More(None));
                have += n;
                continue 'chunks;
            }
            let h = &stream[pos..pos + 20];
            if have < 20 {
                let valid = h[0] & 0xC0 == 0 && h[4..8] == [0x21, 0x12, 0xA4, 0x42];
                let total = 20 + u16::from_be_bytes([h[2], h[3]]) as usize;
                if !valid || bufsize < total {
                    out.push(Step::Err { small: valid, consumed: 20 - have, size: 20, buf_len: bufsize, head: h.to_vec() });
                    return out;
                }
            }
            let total = 20 + u16::from_be_bytes([h[2], h[3]]) as usize;
            if have + n >= total {
                let consumed = total - have;
                out.push(Step::Decoded { packet: stream[pos..pos + total].to_vec(), consumed });
                pos += total;
                have = 0;
                a += consumed;
                if a == b {
                    continue 'chunks;
                }
            } else {
                out.push(Step::More(Some(total - have - n)));
                have += n;
                continue 'chunks;
            }
        }
    }
    out
}

/// Drive the real reassembler the way a caller does: one decoder per packet, leftover bytes of a chunk
/// are handed to a fresh decoder.
fn subject(stream: &[u8], cuts: &[usize], bufsize: usize) -> Result<Vec<Step>, String> {
    guard(|| {
        let mut out = vec![];
        // half of the (stream, cuts, buffer) combinations hand over a buffer cut out of a bigger allocation
        // (capacity > len): the limit is what the caller offered, `len()`
        let roomy = (stream.len() + cuts.iter().sum::<usize>() + bufsize) % 2 == 1;
        let buffer = if roomy {
            let mut v = Vec::with_capacity(bufsize + 4096);
            v.resize(bufsize, 0xCDu8);
            v
        } else {
            vec![0xCD; bufsize]
        };
        let mut dec = match StunPacketDecoder::new(buffer) {
            Ok(d) => d,
            Err(e) => {
                out.push(Step::Err { small: matches!(e.error_type, StunPacketErrorType::SmallBuffer), consumed: e.consumed, size: e.size, buf_len: e.buffer.len(), head: vec![] });
                return out;
            }
        };
        let mut bounds = vec![0usize];
        bounds.extend_from_slice(cuts);
        bounds.push(stream.len());
        for w in bounds.windows(2) {
            let mut data = &stream[w[0]..w[1]];
            loop {
                match dec.decode(data) {
                    Ok(StunPacketDecodedValue::Decoded((p, consumed))) => {
                        out.push(Step::Decoded { packet: p.to_vec(), consumed });
                        dec = StunPacketDecoder::new(vec![0xCD; bufsize]).expect("buffer >= 20");
                        if consumed > data.len() {
                            out.push(Step::More(Some(usize::MAX))); // marks nonsense
                            return out;
                        }
                        data = &data[consumed..];
                        if data.is_empty() {
                            break;
                        }
                    }
                    Ok(StunPacketDecodedValue::MoreBytesNeeded((d, n))) => {
                        out.push(Step::More(n));
                        dec = d;
                        break;
                    }
                    Err(e) => {
                        out.push(Step::Err {
                            small: matches!(e.error_type, StunPacketErrorType::SmallBuffer),
                            consumed: e.consumed,
                            size: e.size,
                            buf_len: e.buffer.len(),
                            head: e.buffer[..e.size.min(e.buffer.len())].to_vec(),
                        });
                        return out;
                    }
                }
            }
        }
        out
    })
}

pub fn check(stream: &[u8], cuts: &[usize], bufsize: usize, what: &str, rep: &mut Report) {
    rep.eval();
    let want = reference(stream, cuts, bufsize);
    let replay = || json!({"kind": "stream", "stream": hex(stream), "cuts": cuts, "buffer": bufsize, "family": what});
    match subject(stream, cuts, bufsize) {
        Err(p) => rep.violate(format!("reassembler-panics/{}/{}", what, crate::util::panic_site(&p)), p, replay()),
        Ok(got) => {
            // an error step is judged by what the statement fixes: its kind, the call at which it is raised and the
            // buffer being handed back whole; `consumed`, `size` and the handed-back contents are not specified
            let norm = |v: &[Step]| -> Vec<Step> {
                v.iter()
                    .map(|s| match s {
                        Step::Err { small, buf_len, .. } => Step::Err { small: *small, consumed: 0, size: 0, buf_len: *buf_len, head: vec![] },
                        o => o.clone(),
                    })
                    .collect()
            };
            if norm(&got) != norm(&want) {
                let (got, want) = (norm(&got), norm(&want));
                let ix = got.iter().zip(want.iter()).position(|(a, b)| a != b).unwrap_or(got.len().min(want.len()));
                let kind = match (got.get(ix), want.get(ix)) {
                    (Some(Step::Decoded { .. }), Some(Step::Decoded { .. })) => "packet-bytes-or-consumed-count",
                    (Some(Step::More(_)), Some(Step::More(_))) => "missing-byte-count",
                    (Some(Step::Err { .. }), Some(Step::Err { .. })) => "error-report",
                    (_, Some(Step::Err { .. })) => "error-not-reported-at-header-completion",
                    (Some(Step::Err { .. }), _) => "spurious-error",
                    _ => "step-kind",
                };
                rep.violate(
                    format!("{}/{}", kind, what),
                    format!("call {}: got {:?} expected {:?}", ix, got.get(ix).map(short), want.get(ix).map(short)),
                    replay(),
                );
            } else {
                rep.nontrivial_by_construction();
                rep.outcome(
                    want.iter()
                        .map(|s| match s {
                            Step::Decoded { .. } => "D",
                            Step::More(None) => "m",
                            Step::More(Some(_)) => "M",
                            Step::Err { small: true, .. } => "S",
                            Step::Err { .. } => "I",
                        })
                        .collect::<String>(),
                );
            }
        }
    }
}

fn short(s: &Step) -> String {
    match s {
        Step::Decoded { packet, consumed } => format!("Decoded(len {}, consumed {})", packet.len(), consumed),
        o => format!("{:?}", o),
    }
}

/// every chunking with up to `k` cuts (cuts may coincide and touch the ends: empty chunks)
pub fn for_cuts(len: usize, k: usize, f: &mut dyn FnMut(&[usize])) {
    f(&[]);
    if k >= 1 {
        for a in 0..=len {
            f(&[a]);
            if k >= 2 {
                for b in a..=len {
                    f(&[a, b]);
                    if k >= 3 {
                        for c in b..=len {
                            f(&[a, b, c]);
                        }
                    }
                }
            }
        }
    }
}

pub fn run(ctx: &RunCtx) -> i32 {
    let thorough = ctx.thorough();
    let shared = Shared::new();
    // stream families
    let small_sizes: &[usize] = &[0, 4, 8, 24];
    let mut streams: Vec<(Vec<u8>, Vec<usize>, usize)> = vec![]; // (bytes, packet sizes, max cuts)
    let big_sizes: &[usize] = &[0, 4, 8, 24, 100, 1000];
    for (i, a) in big_sizes.iter().enumerate() {
        let p = packet(*a, i as u8 + 1);
        let k = if p.len() <= 160 { 3 } else { 2 };
        streams.push((p.clone(), vec![p.len()], k));
    }
    for (i, a) in small_sizes.iter().enumerate() {
        for (j, b) in small_sizes.iter().enumerate() {
            let (p, q) = (packet(*a, i as u8 + 1), packet(*b, j as u8 + 0x11));
            let mut s = p.clone();
            s.extend_from_slice(&q);
            streams.push((s, vec![p.len(), q.len()], 3));
        }
    }
    let tri: &[usize] = if thorough { &[0, 4, 8, 24] } else { &[0, 4, 8] };
    for a in tri {
        for b in tri {
            for c in tri {
                let (p, q, r) = (packet(*a, 1), packet(*b, 2), packet(*c, 3));
                let mut s = p.clone();
                s.extend_from_slice(&q);
                s.extend_from_slice(&r);
                streams.push((s, vec![p.len(), q.len(), r.len()], 3));
            }
        }
    }
    // long mixed streams: 2 cuts
    for (a, b, c) in [(100usize, 0usize, 24usize), (1000, 4, 100), (24, 1000, 0)] {
        let (p, q, r) = (packet(a, 7), packet(b, 8), packet(c, 9));
        let mut s = p.clone();
        s.extend_from_slice(&q);
        s.extend_from_slice(&r);
        streams.push((s, vec![p.len(), q.len(), r.len()], 2));
    }
    let n_streams = streams.len();
    streams.par_iter().for_each(|(s, sizes, k)| {
        let mut r = Report::new();
        let maxp = *sizes.iter().max().unwrap();
        let mut bufs = vec![20, maxp.saturating_sub(1).max(20), maxp, maxp + 1, 2 * maxp];
        bufs.sort();
        bufs.dedup();
        for buf in bufs {
            for_cuts(s.len(), *k, &mut |cuts| check(s, cuts, buf, "valid-stream", &mut r));
            // equal pieces of size 1..=64
            for piece in 1..=64usize {
                let cuts: Vec<usize> = (1..).map(|i| i * piece).take_while(|c| *c < s.len()).collect();
                check(s, &cuts, buf, "equal-pieces", &mut r);
            }
        }
        if sizes.len() == 2 && sizes[0] == 24 && sizes[1] == 28 {
            r.sample(json!({"stream_packet_sizes": sizes, "cuts": "every multiset of <=3 cut positions in 0..=len", "buffers": "20, max-1, max, max+1, 2*max"}));
        }
        r.sym("valid-streams");
        shared.merge(r);
    });
    // every message type: all 4096 methods x 4 classes as a 20-byte packet (every 1-cut chunking, exact buffer) and 26
    // types spread over the method bits with 8 attribute bytes, alone and followed by a Binding packet (every <=2-cut
    // chunking x 3 buffers): whether 20 bytes are a STUN header depends on the two top bits and the cookie only
    (0..=0xFFFu16).into_par_iter().for_each(|m| {
        let mut r = Report::new();
        for c in 0..4u8 {
            let p = ref_encode(&menu::lmsg(m, c, [0x5c; 12], vec![]), None);
            for_cuts(p.len(), 1, &mut |cuts| check(&p, cuts, 20, "every-message-type", &mut r));
        }
        r.sym("every-message-type");
        shared.merge(r);
    });
    {
        let mut types: Vec<(u16, u8)> = vec![];
        for bit in 0..12 {
            types.push((1u16 << bit, (bit % 4) as u8));
            types.push((0xFFF ^ (1u16 << bit), ((bit + 1) % 4) as u8));
        }
        types.push((0xFFF, 3));
        types.push((0x000, 0));
        types.par_iter().for_each(|(m, c)| {
            let mut r = Report::new();
            let p = ref_encode(&menu::lmsg(*m, *c, [0x5d; 12], vec![L::Data(vec![1, 2, 3, 4])]), None);
            let mut two = p.clone();
            two.extend_from_slice(&packet(4, 2));
            for s in [&p, &two] {
                for buf in [p.len(), p.len() + 1, 2 * p.len()] {
                    for_cuts(s.len(), 2, &mut |cuts| check(s, cuts, buf, "message-type-menu", &mut r));
                }
            }
            r.sym("message-type-menu");
            shared.merge(r);
        });
    }
    // error streams: header corruptions that make the first / second packet a non-STUN header
    let base = {
        let mut s = packet(8, 1);
        s.extend_from_slice(&packet(4, 2));
        s
    };
    let mut bad: Vec<(Vec<u8>, String)> = vec![];
    for start in [0usize, 28] {
        for (off, vals) in [(0usize, vec![0x40u8, 0x80, 0xC0]), (4, vec![0x01, 0x80, 0xFF]), (5, vec![0x01, 0x80, 0xFF]), (6, vec![0x01, 0x80, 0xFF]), (7, vec![0x01, 0x80, 0xFF])] {
            for v in vals {
                let mut s = base.clone();
                s[start + off] ^= v;
                bad.push((s, format!("packet{}-byte{}", start / 28, off)));
            }
        }
    }
    // header bytes that keep it a STUN header (type low bits, id) must not produce an error
    bad.par_iter().for_each(|(s, what)| {
        let mut r = Report::new();
        for buf in [20usize, 28, 64] {
            for_cuts(s.len(), if thorough { 3 } else { 2 }, &mut |cuts| check(s, cuts, buf, "invalid-header", &mut r));
        }
        let _ = what;
        r.sym("invalid-header-streams");
        shared.merge(r);
    });
    // packets one byte larger than the buffer, and buffers below the 20-byte minimum
    {
        let mut r = Report::new();
        for a in [4usize, 24, 100] {
            let s = packet(a, 5);
            for_cuts(s.len(), 2, &mut |cuts| check(&s, cuts, s.len() - 1, "packet-exceeds-buffer", &mut r));
        }
        for b in 0..20usize {
            r.eval();
            match guard(|| StunPacketDecoder::new(vec![0; b]).map(|_| ())) {
                Ok(Err(e)) if matches!(e.error_type, StunPacketErrorType::SmallBuffer) && e.buffer.len() == b => r.nontrivial_by_construction(),
                other => r.violate("constructor-accepts-buffer-below-20", format!("{} bytes: {:?}", b, other.map(|x| x.is_ok())), json!({"buffer": b})),
            }
        }
        r.sym("small-buffer-streams");
        shared.merge(r);
    }
    let mut rep = shared.into_inner();
    rep.add_extra("streams", n_streams as u64);
    crate::util::finish(
        ctx,
        rep,
        Finish {
            level: "exploration",
            rule: format!("{} valid streams of 1-3 reference-encoded packets (0/4/8/24/100/1000 attribute bytes): every chunking with <=3 cuts (streams <=160 bytes; cuts may coincide or touch the ends, giving empty and one-byte chunks) or <=2 cuts (longer), plus equal pieces of 1..=64 bytes, x buffer sizes {{20, max-1, max, max+1, 2*max}} (half of the combinations with a buffer whose capacity exceeds its length by 4096); every one of the 16,384 message types as a 20-byte packet under every 1-cut chunking and 26 types spread over the method bits (8 attribute bytes, alone and followed by a Binding packet) under every <=2-cut chunking x 3 buffers; 30 header corruptions x every <=2-cut chunking x 3 buffers; packets exceeding the buffer; every call's result compared with a reference splitter that only reads header length fields (error steps by kind, call index and the length of the buffer handed back; the `consumed` / `size` fields of an error are not specified by the statement). Non-trivial = chunking whose whole per-call result sequence matched; outcomes = distinct result-kind sequences", n_streams),
            assumptions: vec!["the caller protocol modelled is: new decoder per packet, leftover bytes of the chunk go to the fresh decoder".into()],
            required_symbols: vec!["every-message-type", "message-type-menu", "valid-streams", "invalid-header-streams", "small-buffer-streams"],
            min_outcomes: 8,
            exhaustive: true,
            bounds: json!({"max_cuts_short": 3, "max_cuts_long": 2, "streams": n_streams}),
        },
    )
}
