//! C02 Bytes on the wire follow the RFC layouts — differential enumeration against R-codec,
//! plus exhaustive perturbation of ignorable padding / reserved bits.

use super::c01::{value_class, Keyed};
use crate::cu::{self, Opts};
use crate::menu::{self, KeySpec};
use crate::refs::codec::{self, from_subject, ref_encode, ref_parse, value_bytes, LMsg, L};
use crate::refs::crypto::hex;
use crate::util::{Finish, Report, RunCtx, Shared};
use rayon::prelude::*;
use serde_json::json;

fn region(lm: &LMsg, off: usize, reference: &[u8]) -> String {
    if off < 20 {
        return match off {
            0..=1 => "message-type".into(),
            2..=3 => "message-length".into(),
            4..=7 => "cookie".into(),
            _ => "transaction-id".into(),
        };
    }
    // locate the attribute in the reference encoding
    if let Ok(p) = ref_parse(reference) {
        for (ix, t) in p.tlvs.iter().enumerate() {
            let end = t.off + 4 + t.value.len() + (4 - t.value.len() % 4) % 4;
            if off >= t.off && off < end {
                let kind = lm.attrs.get(ix).map(|a| a.kind()).unwrap_or("?");
                let part = if off < t.off + 2 {
                    "type-code"
                } else if off < t.off + 4 {
                    "length-field"
                } else if off < t.off + 4 + t.value.len() {
                    "value"
                } else {
                    "padding"
                };
                return format!("{}/{}", kind, part);
            }
        }
    }
    "beyond-reference".into()
}

/// subject bytes == reference bytes
pub fn diff(lm: &LMsg, key: Option<&Keyed>, rep: &mut Report) -> Option<Vec<u8>> {
    rep.eval();
    let replay = || json!({"kind": "message", "msg": cu::show_msg(lm), "key": key.map(|k| k.spec.show())});
    let msg = match cu::build_msg(lm, key.map(|k| k.subject)) {
        Ok(m) => m,
        Err(_) => return None, // C01's business
    };
    let reference = ref_encode(lm, key.map(|k| k.raw));
    let enc = match cu::encode_into(&msg, reference.len() + 32, 0x5A) {
        Ok(Ok((n, b))) if n <= b.len() => b[..n].to_vec(),
        _ => return None, // C01 / C14's business
    };
    if enc != reference {
        let off = enc.iter().zip(reference.iter()).position(|(a, b)| a != b).unwrap_or(enc.len().min(reference.len()));
        let r = region(lm, off, &reference);
        let cls = lm
            .attrs
            .iter()
            .find(|a| r.starts_with(a.kind()))
            .map(value_class)
            .unwrap_or_else(|| "any".into());
        rep.violate(
            format!("wire-bytes-differ/{}/{}", r, cls),
            format!(
                "first difference at offset {}: library {} reference {} (lengths {} / {})",
                off,
                hex(&enc[off.min(enc.len())..(off + 8).min(enc.len())]),
                hex(&reference[off.min(reference.len())..(off + 8).min(reference.len())]),
                enc.len(),
                reference.len()
            ),
            replay(),
        );
        return None;
    }
    // the other direction: what the library reads from the reference writer's bytes is the logical content (messages without
    // integrity / fingerprint attributes: their values are not content)
    if key.is_none() && !lm.attrs.iter().any(|a| matches!(a, L::Mi | L::Sha | L::Fp)) {
        let want: Vec<L> = lm.attrs.iter().map(menu::expected_decoded).collect();
        match cu::decode_with(&cu::decoder(cu::Opts::default_ctx(), None), &reference) {
            Ok(Ok((d, _))) if d.attrs == want && d.method == lm.method && d.class == lm.class && d.tid == lm.tid => {}
            other => {
                let got = other.map(|r| r.map(|(d, _)| d.attrs.iter().map(|a| a.show()).collect::<Vec<_>>()));
                let which = lm.attrs.iter().zip(want.iter()).map(|(a, _)| a.kind()).next().unwrap_or("message");
                rep.violate(format!("reference-bytes-decode-to-other-content/{}", which), format!("{:?}", got), replay());
                return None;
            }
        }
    }
    rep.nontrivial_by_construction();
    Some(enc)
}

/// (offset relative to the attribute header, mask of ignorable bits) for one attribute instance
pub fn ignorable(l: &L, tid: &[u8; 12]) -> Vec<(usize, u8)> {
    let vlen = value_bytes(l, tid).len();
    let mut v: Vec<(usize, u8)> = vec![];
    match l {
        L::MappedAddress(_) | L::AlternateServer(_) | L::XorMappedAddress(_) | L::XorPeerAddress(_) | L::XorRelayedAddress(_)
        | L::OtherAddress(_) | L::ResponseOrigin(_) => v.push((4, 0xFF)),
        L::ErrorCode(..) => {
            v.push((4, 0xFF));
            v.push((5, 0xFF));
            v.push((6, 0xF8));
        }
        L::AddressErrorCode(..) => {
            v.push((5, 0xFF));
            v.push((6, 0xF8));
        }
        L::EvenPort(_) => v.push((4, 0x7F)),
        L::RequestedTransport(_) | L::RequestedAddressFamily(_) | L::AdditionalAddressFamily(_) => {
            v.push((5, 0xFF));
            v.push((6, 0xFF));
            v.push((7, 0xFF));
        }
        L::ChannelNumber(_) => {
            v.push((6, 0xFF));
            v.push((7, 0xFF));
        }
        L::Icmp(..) => {
            v.push((4, 0xFF));
            v.push((5, 0xFF));
        }
        L::ChangeRequest(..) => {
            v.push((4, 0xFF));
            v.push((5, 0xFF));
            v.push((6, 0xFF));
            v.push((7, 0xF9));
        }
        L::PasswordAlgorithms(list) => {
            // inner padding after every entry but the last
            let mut pos = 4;
            for (k, (_, p)) in list.iter().enumerate() {
                pos += 4 + p.len();
                if k + 1 < list.len() {
                    while (pos - 4) % 4 != 0 {
                        v.push((pos, 0xFF));
                        pos += 1;
                    }
                }
            }
        }
        _ => {}
    }
    // attribute padding
    let pad = (4 - vlen % 4) % 4;
    for k in 0..pad {
        v.push((4 + vlen + k, 0xFF));
    }
    v
}

fn perturb(l: &L, rep: &mut Report) {
    let tid = menu::RFC5769_TID;
    let lm = menu::lmsg(1, if matches!(l, L::ErrorCode(..) | L::AddressErrorCode(..)) { 3 } else { 2 }, tid, vec![l.clone(), L::Priority(7)]);
    let base = ref_encode(&lm, None);
    let dec = cu::decoder(Opts::none(), None);
    let (canon, canon_msg) = match cu::decode_with(&dec, &base) {
        Ok(Ok((d, m))) => (d, m),
        _ => return, // not decodable canonically: C01's business
    };
    let ig = ignorable(l, &tid);
    if ig.is_empty() {
        return;
    }
    rep.sym("perturbed-attributes");
    let bits: Vec<(usize, u8)> = ig
        .iter()
        .flat_map(|(o, m)| (0..8).filter(move |b| m & (1 << b) != 0).map(move |b| (*o, 1u8 << b)))
        .collect();
    let mut try_one = |mutant: Vec<u8>, what: &str, rep: &mut Report| {
        rep.eval();
        match cu::decode_with(&dec, &mutant) {
            Ok(Ok((d, m))) if d == canon => {
                // also equal by the value types' own equality (ignorable bits must not be kept inside the value)
                let native_ok = m.attributes().len() == canon_msg.attributes().len()
                    && m.attributes().iter().zip(canon_msg.attributes().iter()).all(|(x, y)| cu::native_eq(x, y) != Some(false));
                if native_ok {
                    rep.nontrivial(&mutant);
                } else {
                    let off = mutant.iter().zip(base.iter()).position(|(a, b)| a != b).unwrap_or(0);
                    rep.violate(
                        format!("ignorable-bits-kept-in-decoded-value/{}", region(&lm, off, &base)),
                        format!("{} ({}): decoded value differs from the canonical one by the type's own equality", what, l.show()),
                        json!({"kind": "bytes", "canonical": hex(&base), "perturbed": hex(&mutant)}),
                    );
                }
            }
            other => {
                let why = match other {
                    Ok(Ok((d, _))) => format!("decoded {:?}", d.attrs.first().map(|a| a.show())),
                    Ok(Err(e)) => format!("decode error: {}", e),
                    Err(p) => format!("panic: {}", p),
                };
                // classify where the first changed byte lies
                let off = mutant.iter().zip(base.iter()).position(|(a, b)| a != b).unwrap_or(0);
                let reg = region(&lm, off, &base);
                rep.violate(
                    format!("ignorable-bits-change-decoding/{}", reg),
                    format!("{} ({}): {}", what, l.show(), why),
                    json!({"kind": "bytes", "canonical": hex(&base), "perturbed": hex(&mutant)}),
                );
            }
        }
    };
    // each ignorable byte set to each pattern
    for (o, m) in &ig {
        for pat in [0x00u8, 0xFF, 0x01, 0x80, 0xA5] {
            let mut x = base.clone();
            x[20 + o] = (x[20 + o] & !m) | (pat & m);
            try_one(x, "byte pattern", rep);
        }
    }
    // each ignorable bit alone
    for (o, b) in &bits {
        let mut x = base.clone();
        x[20 + o] |= b;
        try_one(x, "single bit", rep);
    }
    // all together
    {
        let mut x = base.clone();
        for (o, m) in &ig {
            x[20 + o] |= m;
        }
        try_one(x, "all ignorable bits", rep);
    }
    // all 2^k settings when k <= 10
    if bits.len() <= 10 {
        for n in 0..(1u32 << bits.len()) {
            let mut x = base.clone();
            for (k, (o, b)) in bits.iter().enumerate() {
                if n & (1 << k) != 0 {
                    x[20 + o] |= b;
                }
            }
            try_one(x, "subset of ignorable bits", rep);
        }
        rep.sym("full-subset-walks");
    }
}

fn vectors(rep: &mut Report) {
    use stun_rs::{EncoderContextBuilder, MessageEncoderBuilder, StunPadding};
    let short = KeySpec::Short("VOkJxbRl1RmTxUk/WvJxBt");
    let lt_user = "\u{30de}\u{30c8}\u{30ea}\u{30c3}\u{30af}\u{30b9}";
    let vecs: Vec<(&str, Vec<u8>, Option<stun_rs::HMACKey>, u8)> = vec![
        ("rfc5769-2.1", stun_vectors::SAMPLE_REQUEST.to_vec(), short.subject().ok(), 0x20),
        ("rfc5769-2.2", stun_vectors::SAMPLE_IPV4_RESPONSE.to_vec(), short.subject().ok(), 0x20),
        ("rfc5769-2.3", stun_vectors::SAMPLE_IPV6_RESPONSE.to_vec(), short.subject().ok(), 0x20),
        (
            "rfc5769-2.4",
            stun_vectors::SAMPLE_REQUEST_LONG_TERM_AUTH.to_vec(),
            stun_rs::HMACKey::new_long_term(lt_user, "example.org", "TheMatrIX", stun_rs::Algorithm::from(stun_rs::AlgorithmId::MD5)).ok(),
            0x00,
        ),
    ];
    for (name, bytes, key, pad) in vecs {
        rep.eval();
        let p = match ref_parse(&bytes) {
            Ok(p) => p,
            Err(e) => {
                rep.capped = Some(format!("reference parser rejects {}: {}", name, e));
                continue;
            }
        };
        let o = Opts { ctx: true, key: true, validation: true, unknown_data: false, not_ignore: false };
        let dec = cu::decoder(o, key.as_ref());
        match cu::decode_with(&dec, &bytes) {
            Ok(Ok((d, m))) => {
                let mut ok = d.attrs.len() == p.tlvs.len() && d.method == p.method && d.class == p.class && d.tid == p.tid;
                if ok {
                    for (a, t) in d.attrs.iter().zip(p.tlvs.iter()) {
                        ok &= a.type_code() == t.ty;
                        if !matches!(a, L::Mi | L::Sha | L::Fp) {
                            ok &= value_bytes(a, &p.tid) == t.value;
                        }
                    }
                }
                if !ok {
                    rep.violate(format!("vector-decodes-differently/{}", name), format!("{:?}", d.attrs), json!({"vector": name}));
                    continue;
                }
                // re-encode with the vector's padding byte and compare bytes
                let Some(k) = key.as_ref() else { continue };
                let lm = LMsg { method: d.method, class: d.class, tid: d.tid, attrs: d.attrs.clone() };
                let rebuilt = cu::build_msg(&lm, Some(k));
                let _ = m;
                if let Ok(rm) = rebuilt {
                    let enc = MessageEncoderBuilder::default()
                        .with_context(EncoderContextBuilder::default().with_custom_padding(StunPadding::Custom(pad)).build())
                        .build();
                    let mut buf = vec![0u8; bytes.len() + 16];
                    match crate::util::guard(|| enc.encode(&mut buf, &rm)) {
                        Ok(Ok(n)) if buf[..n] == bytes[..] => {
                            rep.nontrivial(&bytes);
                            rep.sym("rfc5769-vectors");
                        }
                        other => rep.violate(
                            format!("vector-reencodes-differently/{}", name),
                            format!("{:?}", other.map(|r| r.map_err(|e| e.to_string()))),
                            json!({"vector": name}),
                        ),
                    }
                }
            }
            other => rep.violate(
                format!("vector-rejected/{}", name),
                format!("{:?}", other.map(|r| r.map(|x| x.0))),
                json!({"vector": name}),
            ),
        }
    }
}

/// Values with a common ancestor: the two list-valued attributes that can grow (`PasswordAlgorithms::add`,
/// `UnknownAttributes::add`) are cloned, the clones are extended differently (same number of entries, other content; other
/// numbers of entries) and everything is encoded in several orders, also before the clones are taken. Every encode must give
/// the reference bytes of the list that very value holds.
fn diverging_clones(rep: &mut Report) {
    use stun_rs::attributes::stun::{PasswordAlgorithm, PasswordAlgorithms, UnknownAttributes};
    use stun_rs::{Algorithm, AlgorithmId, StunAttribute};
    #[derive(Clone, Debug, PartialEq)]
    enum E {
        Pa(u16, Vec<u8>),
        Ua(u16),
    }
    #[derive(Clone)]
    enum Obj {
        Pa(PasswordAlgorithms),
        Ua(UnknownAttributes),
    }
    #[derive(Clone, Copy, Debug)]
    enum Op {
        Clone(usize),
        Add(usize, usize), // object, element (0 = x, 1 = y, 2 = z)
        Encode(usize),
    }
    use Op::*;
    // object 0 is the ancestor
    let programs: Vec<Vec<Op>> = vec![
        vec![Clone(0), Clone(0), Add(1, 0), Add(2, 1), Encode(1), Encode(2), Encode(0)],
        vec![Clone(0), Clone(0), Add(1, 0), Add(2, 1), Encode(2), Encode(1), Encode(1), Encode(2)],
        vec![Encode(0), Clone(0), Clone(0), Add(1, 0), Add(2, 1), Encode(0), Encode(1), Encode(2), Encode(0)],
        vec![Clone(0), Add(1, 0), Encode(1), Clone(1), Add(2, 1), Add(1, 2), Encode(2), Encode(1), Encode(0)],
        vec![Clone(0), Add(0, 0), Add(1, 1), Encode(0), Encode(1), Clone(1), Add(2, 2), Add(1, 0), Encode(1), Encode(2)],
        vec![Clone(0), Add(1, 0), Encode(1), Add(1, 1), Encode(1), Clone(0), Add(2, 2), Add(2, 1), Encode(2), Encode(1)],
    ];
    let pa_menu = vec![E::Pa(1, vec![]), E::Pa(2, vec![]), E::Pa(1, vec![1, 2, 3]), E::Pa(2, vec![1, 2, 3]), E::Pa(7, vec![9])];
    let ua_menu = vec![E::Ua(0x0001), E::Ua(0x8000), E::Ua(0xFFFF), E::Ua(0x0014)];
    let add = |o: &mut Obj, e: &E| match (o, e) {
        (Obj::Pa(p), E::Pa(a, prm)) => p.add(PasswordAlgorithm::new(Algorithm::new(AlgorithmId::from(*a), if prm.is_empty() { None } else { Some(prm.as_slice()) }))),
        (Obj::Ua(u), E::Ua(c)) => u.add(*c),
        _ => unreachable!(),
    };
    let logical = |family: &str, l: &[E]| -> L {
        match family {
            "UnknownAttributes" => L::UnknownAttributes(l.iter().map(|e| if let E::Ua(c) = e { *c } else { 0 }).collect()),
            _ => L::PasswordAlgorithms(l.iter().map(|e| if let E::Pa(a, p) = e { (*a, p.clone()) } else { (0, vec![]) }).collect()),
        }
    };
    for (family, menu) in [("PasswordAlgorithms", &pa_menu), ("UnknownAttributes", &ua_menu)] {
        for base_len in 0..=2usize {
            for (pi, prog) in programs.iter().enumerate() {
                for x in 0..menu.len() {
                    for y in 0..menu.len() {
                        for z in 0..menu.len().min(3) {
                            if x == y {
                                continue;
                            }
                            rep.eval();
                            let elems = [&menu[x], &menu[y], &menu[z]];
                            let base: Vec<E> = (0..base_len).map(|i| menu[(x + i + 1) % menu.len()].clone()).collect();
                            let mut o0 = if family == "PasswordAlgorithms" { Obj::Pa(PasswordAlgorithms::default()) } else { Obj::Ua(UnknownAttributes::default()) };
                            let mut base = base;
                            if family == "UnknownAttributes" {
                                base.dedup();
                            }
                            for e in &base {
                                add(&mut o0, e);
                            }
                            let mut objs = vec![o0];
                            let mut lists = vec![base.clone()];
                            let mut ok = true;
                            for (step, op) in prog.iter().enumerate() {
                                match *op {
                                    Clone(i) => {
                                        let c = objs[i].clone();
                                        objs.push(c);
                                        let l = lists[i].clone();
                                        lists.push(l);
                                    }
                                    Add(i, e) => {
                                        add(&mut objs[i], elems[e]);
                                        // (UnknownAttributes::add keeps one entry per code)
                                        if !(family == "UnknownAttributes" && lists[i].contains(elems[e])) {
                                            lists[i].push(elems[e].clone());
                                        }
                                    }
                                    Encode(i) => {
                                        // (an UNKNOWN-ATTRIBUTES / PASSWORD-ALGORITHMS without entries is legal on the wire)
                                        let attr: StunAttribute = match &objs[i] {
                                            Obj::Pa(p) => p.clone().into(),
                                            Obj::Ua(u) => u.clone().into(),
                                        };
                                        // the list this value holds, by its public accessors (what `add` does with an entry
                                        // that is already there is not C02's question); the model list is only used to skip
                                        // a PASSWORD-ALGORITHMS without entries
                                        let held = from_subject(&attr);
                                        let _ = &logical;
                                        let lm = menu::lmsg(1, 3, [step as u8; 12], vec![L::ErrorCode(420, "".into()), held]);
                                        if lists[i].is_empty() && family == "PasswordAlgorithms" {
                                            continue;
                                        }
                                        // encode the value itself (not only a clone of it): the message takes the clone, the
                                        // value is encoded through a second message built from a fresh clone afterwards
                                        let mut enc_ok = true;
                                        for _round in 0..2 {
                                            let msg = stun_rs::StunMessageBuilder::new(stun_rs::MessageMethod::try_from(1).unwrap(), stun_rs::MessageClass::ErrorResponse)
                                                .with_transaction_id(stun_rs::TransactionId::from([step as u8; 12]))
                                                .with_attribute(crate::refs::codec::to_subject(&L::ErrorCode(420, "".into()), None).unwrap())
                                                .with_attribute(attr.clone())
                                                .build();
                                            let reference = ref_encode(&lm, None);
                                            match cu::encode_into(&msg, reference.len() + 32, 0x5A) {
                                                Ok(Ok((n, b))) if b[..n.min(b.len())] == reference[..] => {}
                                                other => {
                                                    let got = match other {
                                                        Ok(Ok((n, b))) => hex(&b[..n.min(b.len())]),
                                                        Ok(Err(e)) => format!("error {}", e),
                                                        Err(p) => format!("panic {}", p),
                                                    };
                                                    rep.violate(
                                                        format!("wire-bytes-differ/{}/values-derived-from-a-common-ancestor", family),
                                                        format!("program {} step {}: library {} reference {}", pi, step, got, hex(&reference)),
                                                        json!({"kind": "clone-program", "family": family, "ancestor": format!("{:?}", base), "x": format!("{:?}", elems[0]), "y": format!("{:?}", elems[1]), "z": format!("{:?}", elems[2]), "program": format!("{:?}", prog), "failing_step": step, "note": "object 0 is the ancestor; Clone(i) appends a clone of object i; Add(i, e) calls add on object i with element x/y/z; Encode(i) encodes a Binding error response [ERROR-CODE 420, object i]"}),
                                                    );
                                                    enc_ok = false;
                                                    break;
                                                }
                                            }
                                        }
                                        if !enc_ok {
                                            ok = false;
                                            break;
                                        }
                                    }
                                }
                            }
                            if ok {
                                rep.nontrivial_by_construction();
                                rep.sym("diverging-clones");
                            }
                        }
                    }
                }
            }
        }
    }
}

pub fn run(ctx: &RunCtx) -> i32 {
    let thorough = ctx.thorough();
    let full = menu::body_menu(true);
    let spec = KeySpec::Short("VOkJxbRl1RmTxUk/WvJxBt");
    let subj = spec.subject().expect("menu key");
    let raw = spec.ref_bytes();
    let keyed = Keyed { spec: &spec, subject: &subj, raw: &raw };
    let shared = Shared::new();
    let tail_key = |t: &[L]| t.iter().any(|a| matches!(a, L::Mi | L::Sha));

    // singles x tails x headers; pairs x tails
    {
        let mut r = Report::new();
        for (m, c, tid) in menu::header_menu(true) {
            for tail in menu::TAILS {
                let k = if tail_key(tail) { Some(&keyed) } else { None };
                diff(&menu::lmsg(m, c, tid, tail.to_vec()), k, &mut r);
                for a in &full {
                    let mut attrs = vec![a.clone()];
                    attrs.extend_from_slice(tail);
                    let lm = menu::lmsg(m, c, tid, attrs);
                    if diff(&lm, k, &mut r).is_some() {
                        r.sym(a.kind());
                    }
                    if r.samples.len() < 2 {
                        r.sample(cu::show_msg(&lm));
                    }
                }
            }
        }
        shared.merge(r);
    }
    (0..full.len()).into_par_iter().for_each(|i| {
        let mut r = Report::new();
        for j in 0..full.len() {
            for tail in menu::TAILS {
                let mut attrs = vec![full[i].clone(), full[j].clone()];
                attrs.extend_from_slice(tail);
                let k = if tail_key(tail) { Some(&keyed) } else { None };
                diff(&menu::lmsg(1, 0, menu::RFC5769_TID, attrs), k, &mut r);
            }
        }
        shared.merge(r);
    });
    if thorough {
        // triples over the full menu with the full tail
        (0..full.len()).into_par_iter().for_each(|i| {
            let mut r = Report::new();
            for j in 0..full.len() {
                for k3 in 0..full.len() {
                    let attrs = vec![full[i].clone(), full[j].clone(), full[k3].clone(), L::Mi, L::Sha, L::Fp];
                    diff(&menu::lmsg(3, 2, [0x5a; 12], attrs), Some(&keyed), &mut r);
                }
            }
            shared.merge(r);
        });
    }
    // sweeps
    let sweeps: Vec<Box<dyn Fn(&mut Report) + Sync + Send>> = vec![
        Box::new(|r| {
            for m in 0..=0xFFFu16 {
                for c in 0..4u8 {
                    diff(&menu::lmsg(m, c, [6; 12], vec![]), None, r);
                    diff(&menu::lmsg(m, c, [9; 12], vec![L::Software("x".into())]), None, r);
                    // and the reverse direction: the library reads back what R-codec wrote
                    let t = codec::msg_type(m, c);
                    let mt = stun_rs::MessageType::from(t);
                    if mt.method().as_u16() != m || cu::class_u8(mt.class()) != c || mt.as_u16() != t {
                        r.violate("message-type-interleaving", format!("method {:#x} class {} type {:#x}", m, c, t), json!({"method": m, "class": c}));
                    }
                }
            }
            r.sym_n("sweep-message-types", 16384);
        }),
        Box::new(|r| {
            for tid in menu::xor_tids() {
                for a in menu::addrs(true) {
                    for l in [L::XorMappedAddress(a.clone()), L::XorPeerAddress(a.clone()), L::XorRelayedAddress(a.clone()), L::MappedAddress(a.clone())] {
                        diff(&menu::lmsg(1, 2, tid, vec![l]), None, r);
                    }
                }
            }
            r.sym_n("sweep-xor-ids", menu::xor_tids().len() as u64);
        }),
        Box::new(|r| {
            for c in 300..=699u16 {
                diff(&menu::lmsg(1, 3, [2; 12], vec![L::ErrorCode(c, "r".into())]), None, r);
                diff(&menu::lmsg(1, 3, [2; 12], vec![L::AddressErrorCode(1 + (c % 2) as u8, c, "".into())]), None, r);
            }
            r.sym_n("sweep-error-codes", 400);
        }),
        Box::new(|r| {
            for v in 0..=u16::MAX {
                diff(&menu::lmsg(1, 0, [1; 12], vec![L::ChannelNumber(v)]), None, r);
                diff(&menu::lmsg(1, 0, [1; 12], vec![L::ResponsePort(v)]), None, r);
                diff(&menu::lmsg(1, 0, [1; 12], vec![L::PasswordAlgorithm(v, vec![7])]), None, r);
            }
            r.sym_n("sweep-u16", 65536);
        }),
        Box::new(|r| {
            for ty in 0..=127u8 {
                for code in 0..=511u16 {
                    diff(&menu::lmsg(1, 1, [3; 12], vec![L::Icmp(ty, code, [9, 8, 7, 6])]), None, r);
                }
            }
            r.sym_n("sweep-icmp", 65536);
        }),
        Box::new(|r| {
            for n in 0..=509usize {
                diff(&menu::lmsg(1, 0, [4; 12], vec![L::Software(menu::rep('s', n))]), None, r);
                diff(&menu::lmsg(1, 0, [4; 12], vec![L::Nonce(menu::rep('n', n))]), None, r);
                diff(&menu::lmsg(1, 3, [4; 12], vec![L::ErrorCode(404, menu::rep('e', n))]), None, r);
            }
            r.sym_n("sweep-string-lengths", 510);
        }),
        Box::new(|r| {
            for lm in menu::extra_sweep_msgs() {
                diff(&lm, None, r);
            }
            r.sym_n("sweep-non-last-lengths-addresses-bits-lists", 1);
        }),
        Box::new(|r| vectors(r)),
    ];
    sweeps.par_iter().for_each(|f| {
        let mut r = Report::new();
        f(&mut r);
        shared.merge(r);
    });
    // deep messages (menu::deep_msgs): large offsets / indices, repeats, rotations, quads
    {
        let deep = menu::deep_msgs(thorough);
        let n = deep.len();
        deep.par_chunks(64).for_each(|ch| {
            let mut r = Report::new();
            for lm in ch {
                diff(lm, None, &mut r);
                let mut with_tail = lm.clone();
                with_tail.attrs.extend_from_slice(menu::TAILS[7]);
                diff(&with_tail, Some(&keyed), &mut r);
            }
            shared.merge(r);
        });
        let mut r = Report::new();
        r.sym_n("deep-messages", 2 * n as u64);
        shared.merge(r);
    }
    // offset family (menu::offset_msgs): a subject attribute behind a filler at every body offset of menu::offset_points,
    // including message offsets beyond 65,535; and XOR-* addresses whose wire form is a special address
    {
        let xs = vec![vec![L::Priority(1)], vec![L::Software("ab".into()), L::XorMappedAddress(menu::addrs(true)[1].clone())]];
        let tails = vec![vec![], vec![L::Mi, L::Sha, L::Fp]];
        let msgs = menu::offset_msgs(thorough, &xs, &tails, [0x71; 12]);
        let n = msgs.len();
        msgs.par_chunks(32).for_each(|ch| {
            let mut r = Report::new();
            for lm in ch {
                let k = if lm.attrs.iter().any(|a| matches!(a, L::Mi | L::Sha)) { Some(&keyed) } else { None };
                diff(lm, k, &mut r);
            }
            shared.merge(r);
        });
        let mut r = Report::new();
        r.sym_n("offset-family", n as u64);
        for tid in [menu::RFC5769_TID, [0u8; 12], [0xFF; 12]] {
            for a in menu::xor_special_addrs(&tid) {
                for l in [L::XorMappedAddress(a.clone()), L::XorPeerAddress(a.clone()), L::XorRelayedAddress(a.clone()), L::MappedAddress(a.clone())] {
                    diff(&menu::lmsg(1, 2, tid, vec![l.clone()]), None, &mut r);
                    diff(&menu::lmsg(1, 2, tid, vec![l, L::Priority(9)]), None, &mut r);
                }
            }
        }
        r.sym("xor-special-addresses");
        shared.merge(r);
    }
    {
        let mut r = Report::new();
        diverging_clones(&mut r);
        shared.merge(r);
    }
    // ignorable bits, every attribute instance of the full menu
    full.par_iter().for_each(|l| {
        let mut r = Report::new();
        perturb(l, &mut r);
        shared.merge(r);
    });
    // accessor cross-check of every menu value against from_subject is C01's; here: keys by R-crypto
    {
        let mut r = Report::new();
        for ks in menu::key_menu(true) {
            if let Ok(k) = ks.subject() {
                r.eval();
                if k.as_bytes() != ks.ref_bytes().as_slice() {
                    r.violate("key-derivation-differs", ks.show(), json!({"key": ks.show()}));
                }
            }
        }
        shared.merge(r);
    }

    let mut rep = shared.into_inner();
    rep.outcome("bytes-equal");
    rep.outcome(format!("violations:{}", rep.violations.len()));
    let n = full.len();
    crate::util::finish(
        ctx,
        rep,
        Finish {
            level: "exploration",
            rule: format!("library bytes compared with the independent reference writer (and, for messages without integrity / fingerprint attributes, the reference writer's bytes decoded by the library compared with the logical content) for every message with 0..=2 body attributes over the {}-entry menu x 8 tails (thorough: triples with the full tail), all 16384 message types both directions, XOR attributes under 123 transaction ids, 400 error codes, u16 / ICMP / string-length sweeps, the non-last-attribute sweeps (every blob / string length, walking address bytes, single-bit integers, list lengths 0..=8, UNKNOWN-ATTRIBUTES lists of every length up to 600 and up to 32,760 entries, PASSWORD-ALGORITHMS lists up to 200 / 4096 entries), deep messages (as C01: offsets around 256..4096 / 32768, long runs, repeats, rotations of every kind, quads) without and with the full tail, the offset family of C01 (every 4-aligned body offset 0..=4200 / 16,400, around multiples of 4096 / 1024, every offset 65,300..=65,532) and XOR-* addresses with special wire forms, RFC 5769 vectors (both parsers, re-encoded with the vector's padding byte); values derived from a common ancestor (PASSWORD-ALGORITHMS / UNKNOWN-ATTRIBUTES ancestors of 0..=2 entries, 6 clone / add / encode programs over up to three objects, every ordered pair of distinct elements from a 5 / 4-entry menu: clones that grew to the same length with other content, encodes before and after cloning, in both orders, twice); every ignorable byte of every menu attribute set to 5 patterns, every ignorable bit alone, all together, all 2^k subsets when k<=10. Non-trivial = bytes equal / perturbed message decodes to the canonical value (by public accessors and by the value types' own equality)", n),
            assumptions: vec![
                "R-codec follows the library for two RFC ambiguities: the last PASSWORD-ALGORITHMS entry is padded by the attribute padding, RESPONSE-PORT has length 2".into(),
                "reference codec written from the RFCs by the harness author; checked against RFC 5769 vectors at start-up".into(),
            ],
            required_symbols: vec!["deep-messages", "offset-family", "xor-special-addresses", "sweep-message-types", "sweep-non-last-lengths-addresses-bits-lists", "sweep-xor-ids", "rfc5769-vectors", "perturbed-attributes", "full-subset-walks", "ErrorCode", "diverging-clones"],
            min_outcomes: 2,
            exhaustive: true,
            bounds: json!({"L": if thorough {3} else {2}, "menu": n}),
        },
    )
}
