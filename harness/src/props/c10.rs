//! C10 FINGERPRINT is the RFC CRC, catches small corruptions, is enforced by the client — E1 x E2 (+ E3).

use super::c01::Keyed;
use crate::cu::{self, Opts};
use crate::menu::{self, KeySpec};
use crate::refs::codec::{ref_encode, value_bytes, LMsg, L};
use crate::refs::crypto::hex;
use crate::util::{guard, Finish, Report, RunCtx, Shared};
use rayon::prelude::*;
use serde_json::json;
use stun_rs::attributes::stun::Fingerprint;
use stun_rs::{MessageDecoder, StunAttribute};

/// Are the bytes accepted as carrying a valid FINGERPRINT? (validating decoder returns it, or the
/// get_input_text + validate route the agent uses says true)
pub fn fp_accepted(bytes: &[u8], plain: &MessageDecoder, validating: &MessageDecoder) -> Result<bool, String> {
    fp_accepted_each(bytes, plain, validating).map(|(a, b)| a || b)
}

/// (by the validating decoder, by get_input_text + validate): an altered message must be refused by both, the encoder's own
/// output accepted by both
pub fn fp_accepted_each(bytes: &[u8], plain: &MessageDecoder, validating: &MessageDecoder) -> Result<(bool, bool), String> {
    guard(|| {
        let mut by_decoder = false;
        let mut by_validate = false;
        if let Ok((m, _)) = validating.decode(bytes) {
            if m.attributes().iter().any(|a| matches!(a, StunAttribute::Fingerprint(_))) {
                by_decoder = true;
            }
        }
        if let Ok((m, _)) = plain.decode(bytes) {
            if let Some(StunAttribute::Fingerprint(fp)) = m.get::<Fingerprint>() {
                if let Some(input) = stun_rs::get_input_text::<Fingerprint>(bytes) {
                    if fp.validate(&input) {
                        by_validate = true;
                    }
                }
            }
        }
        (by_decoder, by_validate)
    })
}

/// `stride` > 1: faults only at the first 24 bytes, the last 40 bytes and every `stride`-th byte in between.
fn check_msg(lm: &LMsg, k: &Keyed, stride: usize, rep: &mut Report) {
    rep.eval();
    let replay = || json!({"kind": "message", "msg": cu::show_msg(lm)});
    let msg = match cu::build_msg(lm, Some(k.subject)) {
        Ok(m) => m,
        Err(_) => return,
    };
    let reference = ref_encode(lm, Some(k.raw));
    let enc = match cu::encode_into(&msg, reference.len() + 16, 0) {
        Ok(Ok((n, b))) => b[..n].to_vec(),
        other => {
            rep.violate("encode-fails", format!("{:?}", other.map(|r| r.map(|x| x.0))), replay());
            return;
        }
    };
    if enc != reference {
        let n = enc.len();
        let off = enc.iter().zip(reference.iter()).position(|(a, b)| a != b).unwrap_or(0);
        rep.violate(
            if off >= n - 4 { "crc-on-wire-is-not-the-rfc-crc" } else { "bytes-before-fingerprint-differ" },
            format!("first difference at {} of {}", off, n),
            replay(),
        );
        return;
    }
    check_wire(enc, k, stride, rep, &replay);
}

/// The wire part of `check_msg`: `enc` ends in a correct FINGERPRINT (the encoder's output, or the reference encoder's for
/// messages the library cannot build, e.g. with unknown attributes): accepted untouched by both routes, refused after every fault.
fn check_wire(enc: Vec<u8>, k: &Keyed, stride: usize, rep: &mut Report, replay: &dyn Fn() -> serde_json::Value) {
    let n = enc.len();
    let plain = cu::decoder(Opts::default_ctx(), None);
    let o = Opts { ctx: true, key: true, validation: true, unknown_data: false, not_ignore: false };
    let validating = cu::decoder(o, Some(k.subject));
    match fp_accepted_each(&enc, &plain, &validating) {
        Ok((true, true)) => rep.sym("accepted-untampered"),
        Ok((d, v)) => {
            let by = if !d && !v { "" } else if !d { "/by-the-validating-decoder" } else { "/by-get_input_text-and-validate" };
            rep.violate(format!("untampered-message-rejected{}", by), "", replay());
            return;
        }
        Err(p) => {
            rep.violate(format!("validation-panics/{}", crate::util::panic_site(&p)), p, replay());
            return;
        }
    }
    // validated decode must succeed outright on the encoder's output
    if validating.decode(&enc).is_err() {
        rep.violate("validated-decode-of-own-output-fails", "", replay());
        return;
    }
    // construction routes of the validating decoders: same verdict on the untouched message and on one with the last
    // CRC byte flipped (one message in 16, chosen by a hash of its bytes)
    if crate::util::hash64(&enc) % 16 == 0 {
        let vopts: Vec<Opts> = cu::all_opts().into_iter().filter(|o| o.ctx && o.validation).collect();
        let routes = cu::all_routes(Some(k.subject), &vopts);
        let mut bad = enc.clone();
        bad[n - 1] ^= 0x01;
        let c = cu::routes_agree(&routes, &enc, rep, &replay) + cu::routes_agree(&routes, &bad, rep, &replay);
        rep.add_extra("decoder_construction_routes_compared", c);
        rep.sym("decoder-construction-routes");
    }
    let mut m = enc.clone();
    let mut probe = |m: &[u8], what: &str, i: usize, rep: &mut Report| {
        rep.eval();
        match fp_accepted(m, &plain, &validating) {
            Ok(false) => {}
            Ok(true) => {
                let region = if i < 2 { "message-type" } else if i < 4 { "message-length" } else if i < 20 { "header" } else if i < n - 8 { "attributes" } else if i < n - 4 { "fingerprint-header" } else { "crc-value" };
                rep.violate(
                    format!("corrupted-message-accepted/{}/{}", what, region),
                    format!("byte {}", i),
                    json!({"kind": "bytes", "original": hex(&enc), "corrupted": hex(m)}),
                );
            }
            Err(p) => rep.violate(format!("validation-panics/{}", crate::util::panic_site(&p)), p, json!({"bytes": hex(m)})),
        }
    };
    for i in 0..n {
        if stride > 1 && i >= 24 && i + 40 < n && i % stride != 0 {
            continue;
        }
        for b in 0..8 {
            m[i] ^= 1 << b;
            probe(&m, "single-bit", i, rep);
            m[i] ^= 1 << b;
        }
        let old = m[i];
        for v in [old ^ 0xFF, old.wrapping_add(1), 0x00, 0xFF] {
            if v != old {
                m[i] = v;
                probe(&m, "single-byte", i, rep);
            }
        }
        m[i] = old;
    }
    rep.sym("fault-walks");
    rep.nontrivial_by_construction();
}

pub fn run(ctx: &RunCtx) -> i32 {
    let thorough = ctx.thorough();
    let menu_v: Vec<L> = menu::body_menu(thorough).into_iter().filter(|a| value_bytes(a, &[0; 12]).len() <= 64).collect();
    let singles: Vec<L> = menu::body_menu(true);
    let tails: Vec<Vec<L>> = vec![vec![L::Fp], vec![L::Mi, L::Fp], vec![L::Sha, L::Fp], vec![L::Mi, L::Sha, L::Fp]];
    let spec = KeySpec::Short("VOkJxbRl1RmTxUk/WvJxBt");
    let subj = spec.subject().expect("menu key");
    let raw = spec.ref_bytes();
    let shared = Shared::new();
    if crate::util::second_pass() {
        // the codec has no state and one log-free path: only the client part is repeated with logging off
        let mut rep = Report::new();
        crate::e3::c10_client::run(ctx, &mut rep);
        return crate::util::finish(
            ctx,
            rep,
            Finish { level: "fault_enumeration", rule: String::new(), assumptions: vec![], required_symbols: vec![], min_outcomes: 0, exhaustive: true, bounds: json!({"part": "client only"}) },
        );
    }
    // singles over the full menu (all sizes) x 4 tails, and the empty body
    singles.par_iter().for_each(|a| {
        let kk = Keyed { spec: &spec, subject: &subj, raw: &raw };
        let mut r = Report::new();
        for t in &tails {
            let mut attrs = vec![a.clone()];
            attrs.extend(t.clone());
            check_msg(&menu::lmsg(1, 2, menu::RFC5769_TID, attrs), &kk, 1, &mut r);
        }
        r.sym("singles");
        shared.merge(r);
    });
    {
        let kk = Keyed { spec: &spec, subject: &subj, raw: &raw };
        let mut r = Report::new();
        for t in &tails {
            for (m, c, tid) in menu::header_menu(true) {
                check_msg(&menu::lmsg(m, c, tid, t.clone()), &kk, 1, &mut r);
            }
        }
        shared.merge(r);
    }
    (0..menu_v.len()).into_par_iter().for_each(|i| {
        let kk = Keyed { spec: &spec, subject: &subj, raw: &raw };
        let mut r = Report::new();
        for j in 0..menu_v.len() {
            for (ti, t) in tails.iter().enumerate() {
                if !thorough && (i + j) % tails.len() != ti {
                    continue; // quick tier: one rotating tail per pair
                }
                let mut attrs = vec![menu_v[i].clone(), menu_v[j].clone()];
                attrs.extend(t.clone());
                let lm = menu::lmsg(1, 0, [0x21; 12], attrs);
                check_msg(&lm, &kk, 1, &mut r);
                if i == 3 && j == 4 {
                    r.sample(json!({"msg": cu::show_msg(&lm), "faults": "every bit, and 4 byte substitutions at every byte, of the whole message"}));
                }
            }
        }
        r.sym("pairs");
        shared.merge(r);
    });
    // every message length: one DATA blob of 0..=300 bytes (thorough 0..=1100) + FINGERPRINT, full walk
    (0..=if thorough { 1100usize } else { 300 }).into_par_iter().for_each(|n| {
        let kk = Keyed { spec: &spec, subject: &subj, raw: &raw };
        let mut r = Report::new();
        let b: Vec<u8> = (0..n).map(|x| (x * 5 + 1) as u8).collect();
        check_msg(&menu::lmsg(1, 1, [0x45; 12], vec![L::Data(b), L::Fp]), &kk, 1, &mut r);
        r.sym("length-sweep");
        shared.merge(r);
    });
    // deep messages (menu::deep_msgs) x 2 tails, sparse walk (first 24 bytes, last 40 bytes, every 251st byte; quick tier: one alternating tail)
    menu::deep_msgs(thorough).par_chunks(16).for_each(|ch| {
        let kk = Keyed { spec: &spec, subject: &subj, raw: &raw };
        let mut r = Report::new();
        for (ix, lm) in ch.iter().enumerate() {
            for (ti, t) in [vec![L::Fp], vec![L::Mi, L::Sha, L::Fp]].into_iter().enumerate() {
                if !thorough && ix % 2 != ti {
                    continue; // quick tier: alternating tail
                }
                let mut m = lm.clone();
                m.attrs.extend(t);
                check_msg(&m, &kk, 251, &mut r);
            }
        }
        r.sym("deep-messages");
        shared.merge(r);
    });
    // offset family: FINGERPRINT (alone / after MI) behind a filler at every body offset of menu::offset_points up to the
    // 65,532-byte maximum, sparse walk
    {
        let xs: Vec<Vec<L>> = vec![vec![]];
        let tails = vec![vec![L::Fp], vec![L::Mi, L::Fp]];
        menu::offset_msgs(thorough, &xs, &tails, [0x74; 12]).par_chunks(8).for_each(|ch| {
            let kk = Keyed { spec: &spec, subject: &subj, raw: &raw };
            let mut r = Report::new();
            for lm in ch {
                check_msg(lm, &kk, 509, &mut r);
            }
            r.sym("offset-family");
            shared.merge(r);
        });
    }
    // decoy values (menu::decoy_blobs) in front of the FINGERPRINT tails, sparse walk
    menu::decoy_blobs().par_chunks(16).for_each(|ch| {
        let kk = Keyed { spec: &spec, subject: &subj, raw: &raw };
        let mut r = Report::new();
        for (ix, b) in ch.iter().enumerate() {
            let t = &tails[ix % tails.len()];
            let mut attrs = vec![L::Data(b.clone())];
            attrs.extend(t.clone());
            check_msg(&menu::lmsg(1, 2, [0x47; 12], attrs), &kk, 17, &mut r);
        }
        r.sym("decoy-values");
        shared.merge(r);
    });
    // unknown attributes on the wire (the library's encoder cannot produce them; bytes from the reference encoder): one unknown
    // attribute (comprehension-required / optional type, value of 0 / 1 / 4 / 7 / 33 bytes) at every position of the four tails -
    // in front, between the integrity attributes, directly before FINGERPRINT - alone and behind a SOFTWARE; full walk
    {
        let mut msgs: Vec<LMsg> = Vec::new();
        for t in &tails {
            for pos in 0..t.len() {
                for ty in [0x7F31u16, 0xFF31, 0x0033, 0xC003] {
                    for len in [0usize, 1, 4, 7, 33] {
                        for lead in [false, true] {
                            let mut attrs: Vec<L> = if lead { vec![L::Software("ab".into())] } else { vec![] };
                            let mut tt = t.clone();
                            tt.insert(pos, L::Unknown(ty, Some((0..len).map(|x| (x * 7 + 3) as u8).collect())));
                            attrs.extend(tt);
                            msgs.push(menu::lmsg(1, 1, [0x52; 12], attrs));
                        }
                    }
                }
            }
        }
        msgs.par_chunks(8).for_each(|ch| {
            let kk = Keyed { spec: &spec, subject: &subj, raw: &raw };
            let mut r = Report::new();
            for lm in ch {
                r.eval();
                let bytes = ref_encode(lm, Some(kk.raw));
                let replay = || json!({"kind": "wire-message", "msg": cu::show_msg(lm), "bytes": hex(&bytes)});
                check_wire(bytes.clone(), &kk, 1, &mut r, &replay);
            }
            r.sym("unknown-attributes-on-the-wire");
            shared.merge(r);
        });
    }
    let mut rep = shared.into_inner();
    crate::e3::c10_client::run(ctx, &mut rep);
    rep.outcome("fingerprint-accepted-iff-untouched");
    rep.outcome(format!("violations:{}", rep.violations.len()));
    crate::util::finish(
        ctx,
        rep,
        Finish {
            level: "fault_enumeration",
            rule: format!("codec: every single-attribute message of the full menu and the empty body x 4 tails containing FINGERPRINT (and x 10 headers for the empty body), every ordered pair over the {}-entry (<=64-byte values) menu (quick: one rotating tail per pair): wire bytes == reference (independent CRC-32 XOR 0x5354554e over the RFC input), accepted untouched, and after every single-bit fault at every bit and every byte := ^FF / +1 / 00 / FF at every byte never accepted as carrying a valid FINGERPRINT (acceptance = validating decoder returns it OR get_input_text+validate is true). Plus one DATA blob of every length 0..=300 (thorough 1100) + FINGERPRINT with the full walk, and the deep messages of C01 x 2 tails with a sparse walk (first 24 bytes, last 40 bytes, every 251st byte; quick tier: one alternating tail). Plus the offset family (FINGERPRINT alone / after MI behind a filler at every 4-aligned body offset 0..=4200 (thorough 16,400), around multiples of 4096 (1024), every offset 65,300..=65,524; walk at the first 24, last 40 and every 509th byte). Unknown attributes on the wire (bytes from the reference encoder, which the library's encoder cannot produce): one unknown attribute (4 types, values of 0 / 1 / 4 / 7 / 33 bytes) at every position of the four tails, alone and behind a SOFTWARE, full walk. Decoy values (DATA blobs imitating integrity / fingerprint attribute headers at every word of their last 48 bytes, singly and in pairs) in front of the four tails, sparse walk. For one message in 16 the untouched and a corrupted copy are also decoded by every construction route of the eight validating decoder configurations. client: see coverage.client. Non-trivial = message whose whole walk passed", menu_v.len()),
            assumptions: vec!["CRC-32 detects all single-bit and single-byte errors by construction; the walk checks the plumbing (input range, length adjustment, XOR constant, attribute lookup)".into()],
            required_symbols: vec!["accepted-untampered", "fault-walks", "singles", "pairs", "length-sweep", "deep-messages", "offset-family", "decoder-construction-routes", "decoy-values", "unknown-attributes-on-the-wire", "client-packet-ends-in-valid-fingerprint", "client-rejected-bad-or-missing-fingerprint", "client-completed-by-good-reply", "misplaced", "one-bit-wrong", "absent", "wrong-then-decoy", "wrong-then-second-fingerprint", "value-of-the-previous-message", "client-add-remove-collections"],
            min_outcomes: 2,
            exhaustive: true,
            bounds: json!({"menu": menu_v.len(), "tails": 4}),
        },
    )
}
