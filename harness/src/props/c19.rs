//! C19 Value types never panic and clones are independent — E1 over the public API surface.

use crate::menu;
use crate::refs::codec::{from_subject, to_subject, L};
use crate::util::{guard, panic_site, Finish, Report, RunCtx, Shared};
use rayon::prelude::*;
use serde_json::json;
use std::convert::TryFrom;
use stun_rs::attributes::stun::nonce_cookie::StunSecurityFeatures;
use stun_rs::attributes::stun::*;
use stun_rs::attributes::{discovery as d, turn as t};
use stun_rs::*;

pub const ALPHABET: &[&str] = &[
    "a", "Z", "0", " ", "\t", "\"", "\\", ":", "\u{e9}", "\u{a0}", "\u{fd}", "\u{80}", "\u{301}", "\u{1f642}", "\u{c3}",
    // characters with a meaning in the encodings the value types parse (base64 padding and its two specials)
    "=", "+", "/",
];

/// Code points that Unicode normalisation / the PRECIS profiles rewrite, chosen so that the rewritten form is longer,
/// shorter, or of a different class than the input (buffers sized from the raw input, offsets kept across the rewrite):
/// U+0958 (NFC: 3 -> 6 bytes), U+1D15E (4 -> 8 bytes), U+212B (3 -> 2 bytes), U+0340 (singleton), Hangul jamo pair
/// (two -> one), U+FF21 fullwidth, U+3000 / U+1680 non-ASCII spaces, U+00AD / U+200B default-ignorables, DEL, NUL.
pub const NORMALISATION: &[&str] = &[
    "\u{958}", "\u{1d15e}", "\u{212b}", "\u{340}", "\u{1100}", "\u{1161}", "\u{ff21}", "\u{3000}", "\u{1680}", "\u{ad}", "\u{200b}", "\u{7f}", "\u{0}",
];

fn sclass(s: &str) -> String {
    let mut c = vec![];
    if s.is_empty() {
        c.push("empty");
    }
    if !s.is_ascii() {
        c.push("non-ascii");
    } else if !s.is_empty() {
        c.push("ascii");
    }
    if s.len() >= 507 {
        c.push("boundary-length");
    }
    c.join("+")
}

/// call `f`; a panic becomes a violation keyed by API name + panic site
fn np<T>(api: &str, input_class: &str, input: &dyn Fn() -> serde_json::Value, rep: &mut Report, f: impl FnOnce() -> T) -> Option<T> {
    rep.eval();
    match guard(f) {
        Ok(v) => Some(v),
        Err(p) => {
            rep.violate(format!("panics/{}/{}/{}", api, input_class, panic_site(&p)), p, input());
            None
        }
    }
}

fn strings_upto3(four: bool) -> Vec<String> {
    let mut v = vec![String::new()];
    for a in ALPHABET {
        v.push(a.to_string());
        for b in ALPHABET {
            v.push(format!("{}{}", a, b));
            for c in ALPHABET {
                v.push(format!("{}{}{}", a, b, c));
                for d in ALPHABET {
                    v.push(format!("{}{}{}{}", a, b, c, d));
                    if four {
                        for e in ALPHABET {
                            v.push(format!("{}{}{}{}{}", a, b, c, d, e));
                        }
                    }
                }
            }
        }
    }
    // the wide alphabet (core + normalisation-sensitive code points): every string of length <= 3 (thorough: <= 4) that
    // contains at least one of the latter
    let wide: Vec<&str> = ALPHABET.iter().chain(NORMALISATION.iter()).copied().collect();
    let max_wide = if four { 4 } else { 3 };
    let mut stack: Vec<(String, bool, usize)> = vec![(String::new(), false, 0)];
    while let Some((pre, has, len)) = stack.pop() {
        if has && len > 0 {
            v.push(pre.clone());
        }
        if len < max_wide {
            for (i, c) in wide.iter().enumerate() {
                stack.push((format!("{}{}", pre, c), has || i >= ALPHABET.len(), len + 1));
            }
        }
    }
    // growth in front of a long tail, and at the length limits
    for c in NORMALISATION {
        for n in [60usize, 127, 254, 505, 506, 507, 508, 760] {
            v.push(format!("{}{}", c, menu::rep('a', n)));
            v.push(format!("{}{}", menu::rep('a', n), c));
            v.push(c.repeat(n / 4));
        }
    }
    // long and over-long texts of MIXED character widths: k ASCII characters, then one 2-, 3- or 4-byte character repeated
    // (or the four widths in rotation) up to about n bytes - for every byte offset some of them have a character
    // straddling it (code that cuts, previews or measures a text by bytes must cope, on the refusal path too)
    for k in 0..4usize {
        for n in [40usize, 300, 507, 508, 509, 510, 513, 600, 764, 770, 1024, 2000] {
            for c in ["\u{e9}", "\u{20ac}", "\u{1f600}", "\u{c3}\u{a9}"] {
                let mut t = menu::rep('a', k);
                while t.len() < n {
                    t.push_str(c);
                }
                v.push(t);
            }
            let mut t = menu::rep('a', k);
            let rot = ["a", "\u{e9}", "\u{20ac}", "\u{1f600}"];
            let mut i = k;
            while t.len() < n {
                t.push_str(rot[i % 4]);
                i += 1;
            }
            v.push(t);
        }
    }
    for n in [507usize, 508, 509, 510, 762, 763, 764] {
        v.push(menu::rep('a', n));
        v.push(menu::rep('\u{e9}', n / 2) + if n % 2 == 1 { "a" } else { "" });
    }
    v
}

fn exercise_string_value(api: &str, s: &str, rep: &mut Report) {
    let inp = || json!({"api": api, "input": s});
    let cls = sclass(s);
    macro_rules! common {
        ($v:expr) => {{
            let v = $v;
            np(api, &cls, &inp, rep, || {
                let c = v.clone();
                let _ = format!("{:?}", c);
                let _ = c == v;
                let _ = v.as_str().len();
                let r: &str = v.as_ref();
                let _ = v == r;
                let _ = r == v;
                let _ = v == r.to_string();
                let _ = r.to_string() == v;
                // against other, valid and invalid, strings: every comparison operator the type implements
                for other in ["x", "a b", "\u{e9}", "", "\t", "e\u{301}"] {
                    let _ = v == other;
                    let _ = other == v;
                    let _ = v == *other;
                    let _ = v == other.to_string();
                    let _ = other.to_string() == v;
                }
            });
        }};
    }
    // the same value obtained through the DECODER (which applies its own, sometimes laxer, checks)
    let decoded_route = |ty: u16, rep: &mut Report| -> Option<StunAttribute> {
        let mut m = vec![0x01, 0x01, 0, 0, 0x21, 0x12, 0xA4, 0x42];
        m.extend_from_slice(&[7u8; 12]);
        crate::refs::codec::push_tlv(&mut m, ty, s.as_bytes());
        let l = (m.len() - 20) as u16;
        m[2..4].copy_from_slice(&l.to_be_bytes());
        let dec = stun_rs::MessageDecoderBuilder::default().build();
        match np("MessageDecoder::decode", &cls, &inp, rep, || dec.decode(&m).ok().map(|(msg, _)| msg.attributes().first().cloned())) {
            Some(Some(Some(a))) => Some(a),
            _ => None,
        }
    };
    match api {
        "UserName::new" => {
            if let Some(StunAttribute::UserName(v)) = decoded_route(0x0006, rep) {
                common!(v);
            }
        }
        "Realm::new" => {
            if let Some(StunAttribute::Realm(v)) = decoded_route(0x0014, rep) {
                common!(v);
            }
        }
        "Nonce::new" => {
            if let Some(StunAttribute::Nonce(v)) = decoded_route(0x0015, rep) {
                common!(v);
            }
        }
        _ => {}
    }
    match api {
        "UserName::new" => {
            if let Some(Ok(v)) = np(api, &cls, &inp, rep, || UserName::new(s)) {
                rep.nontrivial(&(api, s));
                common!(v);
            }
            np("UserName::try_from", &cls, &inp, rep, || (UserName::try_from(s).is_ok(), UserName::try_from(s.to_string()).is_ok(), UserName::try_from(&s.to_string()).is_ok()));
        }
        "Realm::new" => {
            if let Some(Ok(v)) = np(api, &cls, &inp, rep, || Realm::new(s)) {
                rep.nontrivial(&(api, s));
                common!(v);
            }
            np("Realm::try_from", &cls, &inp, rep, || (Realm::try_from(s).is_ok(), Realm::try_from(s.to_string()).is_ok()));
        }
        "Nonce::new" => {
            if let Some(Ok(v)) = np(api, &cls, &inp, rep, || Nonce::new(s)) {
                rep.nontrivial(&(api, s));
                common!(v.clone());
                np("Nonce::is_nonce_cookie", &cls, &inp, rep, || v.is_nonce_cookie());
                np("Nonce::security_features", &cls, &inp, rep, || v.security_features().is_ok());
            }
            np("Nonce::try_from", &cls, &inp, rep, || (Nonce::try_from(s).is_ok(), Nonce::try_from(s.to_string()).is_ok()));
            for flags in [
                None,
                Some(StunSecurityFeatures::PasswordAlgorithms.into()),
                Some(StunSecurityFeatures::UserNameAnonymity.into()),
                Some(StunSecurityFeatures::PasswordAlgorithms | StunSecurityFeatures::UserNameAnonymity),
            ] {
                if let Some(Ok(v)) = np("Nonce::new_nonce_cookie", &cls, &inp, rep, || Nonce::new_nonce_cookie(s, flags)) {
                    let got = np("Nonce::security_features", "built-by-new_nonce_cookie", &inp, rep, || v.security_features());
                    if let Some(got) = got {
                        // a cookie built by the library must read back the flags it was built with
                        let want = flags.unwrap_or_default();
                        match got {
                            Ok(g) if g == want && v.is_nonce_cookie() => rep.sym("cookie-flags-roundtrip"),
                            other => rep.violate(
                                "nonce-cookie-flags-do-not-read-back",
                                format!("built with {:?}, read {:?}", want, other.map(|g| g.bits())),
                                inp(),
                            ),
                        }
                    }
                }
            }
        }
        "Software::new" => {
            if let Some(Ok(v)) = np(api, &cls, &inp, rep, || Software::new(s)) {
                rep.nontrivial(&(api, s));
                common!(v);
            }
            np("Software::try_from", &cls, &inp, rep, || Software::try_from(s).is_ok());
        }
        "Padding::new" => {
            if let Some(Ok(v)) = np(api, &cls, &inp, rep, || d::Padding::new(s)) {
                rep.nontrivial(&(api, s));
                common!(v);
            }
        }
        "ErrorCode::new" => {
            for code in [0u16, 299, 300, 420, 699, 700, 65535] {
                if let Some(Ok(v)) = np(api, &cls, &inp, rep, || stun_rs::ErrorCode::new(code, s)) {
                    rep.nontrivial(&(api, s, code));
                    np("ErrorCode::accessors", &cls, &inp, rep, || (v.class(), v.number(), v.error_code(), v.reason().len(), v.clone() == v, format!("{:?}", v)));
                    np("AddressErrorCode::new", &cls, &inp, rep, || {
                        let a = t::AddressErrorCode::new(AddressFamily::IPv6, v.clone());
                        (a.family(), a.error_code().error_code(), a.clone() == a, format!("{:?}", a))
                    });
                }
            }
        }
        "UserHash::new" => {
            for other in ["realm", "", "\u{e9}", "\t"] {
                if let Some(Ok(v)) = np(api, &cls, &inp, rep, || UserHash::new(s, other)) {
                    rep.nontrivial(&(api, s, other));
                    np("UserHash::accessors", &cls, &inp, rep, || (v.hash().len(), v.len(), v.clone() == v));
                }
                np(api, &cls, &inp, rep, || UserHash::new(other, s).is_ok());
            }
        }
        "HMACKey::new_short_term" => {
            if let Some(Ok(k)) = np(api, &cls, &inp, rep, || HMACKey::new_short_term(s)) {
                rep.nontrivial(&(api, s));
                np("HMACKey::accessors", &cls, &inp, rep, || (k.as_bytes().len(), k.credential_mechanism().is_short_term(), k.clone() == k, format!("{:?}", k)));
            }
        }
        "HMACKey::new_long_term" => {
            for alg in [AlgorithmId::MD5, AlgorithmId::SHA256, AlgorithmId::Reserved, AlgorithmId::Unassigned(7)] {
                for pos in 0..3 {
                    let (u, r, p) = match pos {
                        0 => (s, "realm", "pass"),
                        1 => ("user", s, "pass"),
                        _ => ("user", "realm", s),
                    };
                    if let Some(Ok(k)) = np(api, &cls, &inp, rep, || HMACKey::new_long_term(u, r, p, Algorithm::from(alg))) {
                        rep.nontrivial(&(api, s, pos));
                        np("HMACKey::accessors", &cls, &inp, rep, || (k.as_bytes().len(), k.credential_mechanism().is_long_term()));
                    }
                }
            }
        }
        _ => unreachable!(),
    }
}

macro_rules! variant_accessors {
    ($a:expr, $rep:expr, $inp:expr; $( $snake:ident ),* ) => {{
        let a: &StunAttribute = $a;
        let mut trues = 0usize;
        paste::paste! {
            $(
                if let Some(is) = np(concat!("StunAttribute::is_", stringify!($snake)), "any", $inp, $rep, || a.[<is_ $snake>]()) {
                    let as_ok = np(concat!("StunAttribute::as_", stringify!($snake)), "any", $inp, $rep, || a.[<as_ $snake>]().is_ok()).unwrap_or(false);
                    if is != as_ok {
                        $rep.violate(concat!("is-and-as-disagree/", stringify!($snake)), "", $inp());
                    }
                    if is {
                        trues += 1;
                        np(concat!("StunAttribute::expect_", stringify!($snake)), "matching-variant", $inp, $rep, || { let _ = a.[<expect_ $snake>](); });
                    }
                }
            )*
        }
        trues
    }};
}

fn exercise_attribute(l: &L, key: &HMACKey, rep: &mut Report) {
    let inp = || json!({"attribute": l.show()});
    let Ok(a) = to_subject(l, Some(key)) else { return };
    let n = variant_accessors!(&a, rep, &inp;
        unknown, alternate_server, error_code, fingerprint, mapped_address, message_integrity, message_integrity_sha256,
        nonce, password_algorithm, password_algorithms, realm, software, unknown_attributes, user_hash, user_name,
        xor_mapped_address, ice_controlled, ice_controlling, priority, use_candidate, channel_number, life_time,
        xor_peer_address, xor_relayed_address, data, requested_address_family, even_port, dont_fragment,
        requested_trasport, additional_address_family, reservation_token, address_error_code, icmp, mobility_ticket,
        change_request, other_address, padding, response_origin, response_port);
    if n != 1 {
        rep.violate("variant-predicates-not-exclusive", format!("{} predicates true for {}", n, l.kind()), inp());
    }
    np("StunAttribute::misc", "any", &inp, rep, || {
        let c = a.clone();
        let _ = format!("{:?}", c);
        let t = a.attribute_type();
        let _ = (t.as_u16(), t.is_comprehension_required(), t.is_comprehension_optional(), format!("{:?} {}", t, t));
        from_subject(&c)
    })
    .map(|back| {
        if back != crate::menu::expected_constructed(l) {
            rep.violate(format!("clone-reads-differently/{}", l.kind()), format!("{} vs {}", back.show(), l.show()), inp());
        } else {
            rep.nontrivial(&("attr", l));
        }
    });
    if t_code(&a) != l.type_code() {
        rep.violate(format!("attribute-type-code/{}", l.kind()), format!("{:#06x}", t_code(&a)), inp());
    }
}

fn t_code(a: &StunAttribute) -> u16 {
    a.attribute_type().as_u16()
}

fn scalar_sweeps(rep: &mut Report) {
    let none = || json!({});
    for v in 0..=u16::MAX {
        let inp = || json!({"u16": v});
        if let Some(mt) = np("MessageType::from(u16)", "any", &inp, rep, || MessageType::from(v)) {
            np("MessageType::accessors", "any", &inp, rep, || (mt.as_u16(), mt.method().as_u16(), mt.method().is_valid(), mt.class(), format!("{:?}", mt)));
        }
        np("MessageType::from(&[u8;2])", "any", &inp, rep, || MessageType::from(&v.to_be_bytes()).as_u16());
        if let Some(r) = np("MessageMethod::try_from", "any", &inp, rep, || MessageMethod::try_from(v)) {
            if r.is_ok() != (v < 0x1000) {
                rep.violate("MessageMethod::try_from-range", format!("{:#x}", v), inp());
            }
            if let Ok(m) = r {
                for c in [MessageClass::Request, MessageClass::Indication, MessageClass::SuccessResponse, MessageClass::ErrorResponse] {
                    np("MessageType::new+as_u16", "any", &inp, rep, || MessageType::new(m, c).as_u16());
                }
            }
        }
        np("AttributeType::from", "any", &inp, rep, || {
            let t = AttributeType::from(v);
            (u16::from(t), t.as_u16(), t.is_comprehension_required(), format!("{}", t))
        });
        if let Some(id) = np("AlgorithmId::from", "any", &inp, rep, || AlgorithmId::from(v)) {
            if np("u16::from(AlgorithmId)", "any", &inp, rep, || u16::from(id)) != Some(v) {
                rep.violate("AlgorithmId-u16-roundtrip", format!("{}", v), inp());
            }
            np("Algorithm::new", "any", &inp, rep, || {
                let a = Algorithm::new(id, Some(&[1u8, 2][..]));
                let b = Algorithm::new(id, None);
                (a.algorithm(), a.parameters().map(|p| p.len()), b.parameters().is_none(), a.clone() == a, format!("{} {:?}", id, a))
            });
        }
        if let Some(Ok(e)) = np("ErrorCode::new", "code-sweep", &inp, rep, || stun_rs::ErrorCode::new(v, "r")) {
            if !(300..=699).contains(&v) {
                rep.violate("ErrorCode::new-accepts-out-of-range", format!("{}", v), inp());
            }
            if let Some((c, n)) = np("ErrorCode::class/number", "code-sweep", &inp, rep, || (e.class(), e.number())) {
                if c as u16 * 100 + n as u16 != v {
                    rep.violate("ErrorCode-class-number-split", format!("{} -> {} {}", v, c, n), inp());
                }
            }
        } else if (300..=699).contains(&v) {
            rep.violate("ErrorCode::new-refuses-legal-code", format!("{}", v), inp());
        }
        np("IcmpCode::new", "any", &inp, rep, || t::IcmpCode::new(v).map(|c| c.get()));
        np("ChannelNumber/ResponsePort/Priority", "any", &inp, rep, || (t::ChannelNumber::new(v).number(), d::ResponsePort::new(v).as_u16(), d::ResponsePort::from(v) == v));
    }
    for v in 0..=u8::MAX {
        let inp = || json!({"u8": v});
        np("MessageClass::try_from", "any", &inp, rep, || MessageClass::try_from(v).is_ok());
        np("AddressFamily::try_from", "any", &inp, rep, || AddressFamily::try_from(v).is_ok());
        np("IcmpType::new", "any", &inp, rep, || t::IcmpType::new(v).map(|c| c.get()));
    }
    np("TransactionId", "any", &none, rep, || {
        let a = TransactionId::from([7u8; 12]);
        let b = TransactionId::from(&[7u8; 12]);
        let c = TransactionId::default();
        (a == b, a.as_bytes().len(), format!("{:?} {}", a, c), a.len(), a < c, AsRef::<[u8]>::as_ref(&a).len())
    });
    np("Cookie", "any", &none, rep, || (MAGIC_COOKIE.as_u32(), MAGIC_COOKIE == 0x2112A442u32, MAGIC_COOKIE == [0x21u8, 0x12, 0xA4, 0x42], format!("{:?}", MAGIC_COOKIE)));
    rep.sym("scalar-sweeps");
}

/// conversions, comparisons, Deref / AsRef / From impls and builders not reached through the menus
fn extra_api(rep: &mut Report) {
    use std::net::{IpAddr, Ipv4Addr, Ipv6Addr, SocketAddr};
    use stun_rs::attributes::ice;
    let none = || json!({"api": "extra conversions"});
    let addrs = [
        SocketAddr::new(IpAddr::V4(Ipv4Addr::new(0, 0, 0, 0)), 0),
        SocketAddr::new(IpAddr::V4(Ipv4Addr::new(255, 255, 255, 255)), 65535),
        SocketAddr::new(IpAddr::V6(Ipv6Addr::new(0, 0, 0, 0, 0, 0, 0, 0)), 0),
        SocketAddr::new(IpAddr::V6(Ipv6Addr::new(0xffff, 0xffff, 0xffff, 0xffff, 0xffff, 0xffff, 0xffff, 0xffff)), 65535),
    ];
    for a in addrs {
        np("address-attributes", "any", &none, rep, || {
            let m = MappedAddress::new(a.ip(), a.port());
            let m2 = MappedAddress::from(a);
            let x = XorMappedAddress::from(a);
            let al = AlternateServer::new(a.ip(), a.port());
            let p = t::XorPeerAddress::from(a);
            let r = t::XorRelayedAddress::from(a);
            let o = d::OtherAddress::from(a);
            let ro = d::ResponseOrigin::new(a.ip(), a.port());
            let sa: &SocketAddr = m.as_ref();
            (m == m2, *sa == a, x.socket_address().port(), al.socket_address().is_ipv4(), p.clone() == p, r.as_ref().port(), o.socket_address().ip(), format!("{:?}", ro))
        });
        np("family-attributes", "any", &none, rep, || {
            let f = if a.is_ipv4() { AddressFamily::IPv4 } else { AddressFamily::IPv6 };
            let r = t::RequestedAddressFamily::from(f);
            let ad = t::AdditionalAddressFamily::new(f);
            (r.family() == f, ad.family() == f, r.clone() == r, format!("{:?}{:?}", r, ad))
        });
    }
    // equality (and Debug / Clone) of every PAIR of values, in both operand orders, for the types that hold secrets or
    // variable-length data: keys of every mechanism and length, integrity attributes built from them, algorithms with
    // parameters of different lengths, lists of different lengths, blobs
    {
        let mut keys: Vec<(String, HMACKey)> = vec![];
        for p in ["a", "ab", "abc", "p\u{e9}", "a-password-of-medium-length", &menu::rep('k', 64), &menu::rep('k', 65), &menu::rep('k', 200)] {
            if let Ok(k) = HMACKey::new_short_term(p) {
                keys.push((format!("short-term/{}", p.len()), k));
            }
            for alg in [AlgorithmId::MD5, AlgorithmId::SHA256] {
                if let Ok(k) = HMACKey::new_long_term("user", "realm", p, Algorithm::from(alg)) {
                    keys.push((format!("long-term-{:?}/{}", alg, p.len()), k));
                }
            }
        }
        for (na, a) in &keys {
            for (nb, b) in &keys {
                let inp = || json!({"api": "HMACKey ==", "left": na, "right": nb});
                np("HMACKey::eq", "pair", &inp, rep, || {
                    let same = a == b;
                    let _ = a != b;
                    let (ma, mb) = (MessageIntegrity::new(a.clone()), MessageIntegrity::new(b.clone()));
                    let (sa, sb) = (MessageIntegritySha256::new(a.clone()), MessageIntegritySha256::new(b.clone()));
                    let _ = (ma == mb, sa == sb, ma.clone() == ma, format!("{:?}{:?}", ma, sb).len());
                    same == (a.as_bytes() == b.as_bytes())
                })
                .map(|consistent| {
                    if !consistent {
                        rep.violate("hmac-key-equality-disagrees-with-key-bytes", format!("{} vs {}", na, nb), inp());
                    }
                });
            }
        }
        let params: Vec<Option<Vec<u8>>> = vec![None, Some(vec![]), Some(vec![1]), Some(vec![1, 2]), Some(vec![1, 2, 3, 4, 5]), Some(vec![9; 40])];
        let algs: Vec<Algorithm> = [AlgorithmId::MD5, AlgorithmId::SHA256, AlgorithmId::from(0x7777u16)]
            .into_iter()
            .flat_map(|id| params.iter().map(move |p| Algorithm::new(id, p.as_deref())))
            .collect();
        for a in &algs {
            for b in &algs {
                let inp = || json!({"api": "Algorithm / PasswordAlgorithm ==", "left": format!("{:?}", a), "right": format!("{:?}", b)});
                np("Algorithm::eq", "pair", &inp, rep, || {
                    let (pa, pb) = (PasswordAlgorithm::new(a.clone()), PasswordAlgorithm::new(b.clone()));
                    let la = PasswordAlgorithms::from(vec![pa.clone(), pb.clone()]);
                    let lb = PasswordAlgorithms::from(vec![pb.clone()]);
                    (a == b, pa == pb, la == lb, lb == la, la.clone() == la)
                });
            }
        }
        let lists: Vec<Vec<u16>> = vec![vec![], vec![1], vec![1, 2], vec![2, 1], (0..40).collect(), (0..41).collect()];
        for a in &lists {
            for b in &lists {
                let inp = || json!({"api": "UnknownAttributes / Data ==", "left": a.len(), "right": b.len()});
                np("UnknownAttributes::eq", "pair", &inp, rep, || {
                    let (ua, ub) = (UnknownAttributes::from(a.as_slice()), UnknownAttributes::from(b.as_slice()));
                    let (da, db) = (t::Data::new(&a.iter().map(|x| *x as u8).collect::<Vec<u8>>()), t::Data::new(&b.iter().map(|x| *x as u8).collect::<Vec<u8>>()));
                    (ua == ub, ub == ua, da == db, db == da)
                });
            }
        }
        rep.sym("pairwise-equality");
    }
    for v in [0u64, 1, u32::MAX as u64, u64::MAX] {
        np("integer-attributes", "any", &none, rep, || {
            let p = ice::Priority::from(v as u32);
            let c = ice::IceControlled::from(v);
            let g = ice::IceControlling::new(v);
            let l = t::LifeTime::new(v as u32);
            let rp = d::ResponsePort::from(v as u16);
            let r: &u32 = p.as_ref();
            (
                p == (v as u32),
                (v as u32) == p,
                p.partial_cmp(&(v as u32)),
                (v as u32).partial_cmp(&p),
                p < ice::Priority::new(u32::MAX) || v as u32 == u32::MAX,
                *r,
                c.as_u64() == g.as_u64(),
                c == v,
                l.as_u32(),
                rp.as_u16(),
                {
                    use std::collections::HashSet;
                    let mut h = HashSet::new();
                    h.insert(p);
                    h.contains(&p)
                },
            )
        });
    }
    np("misc-turn", "any", &none, rep, || {
        let e = t::EvenPort::from(true);
        let e0 = t::EvenPort::default();
        let c = t::ChannelNumber::default();
        let rt = t::RequestedTrasport::default();
        let rt2 = t::RequestedTrasport::from(stun_rs::protocols::UDP);
        let pn = stun_rs::protocols::ProtocolNumber::default();
        let tok = t::ReservationToken::from(&[9u8; 8]);
        let tr: &[u8] = tok.as_ref();
        (e.reserve(), e0.reserve(), c.number(), rt == rt2, pn == 0u8, 17u8 == stun_rs::protocols::UDP, pn.as_u8(), tr.len(), tok.token().len(), t::DontFragment::default() == t::DontFragment {}, ice::UseCandidate::default() == ice::UseCandidate {})
    });
    for n in [0usize, 1, 3, 4, 5, 65536] {
        np("blob-attributes", "any", &none, rep, || {
            let v: Vec<u8> = (0..n).map(|x| x as u8).collect();
            let dd = t::Data::from(v.as_slice());
            let d2 = t::Data::from(v.clone());
            let d3 = t::Data::new(&v);
            let m = stun_rs::attributes::mobility::MobilityTicket::from(v.as_slice());
            let dr: &[u8] = &dd;
            let ar: &[u8] = d2.as_ref();
            (dd == d2, d3.as_bytes().len(), dr.len(), ar.len(), m.value().len(), m == [0u8, 1, 2], m.as_ref().len(), t::Data::default().len())
        });
    }
    np("unknown-attributes-conversions", "any", &none, rep, || {
        let u = UnknownAttributes::from(&[1u16, 2, 2, 1, 3][..]);
        let s: &[u16] = &u;
        (u.attributes() == [1, 2, 3], s.len(), u.iter().count(), u.clone() == u)
    });
    np("password-algorithms-conversions", "any", &none, rep, || {
        let p = PasswordAlgorithms::from(vec![PasswordAlgorithm::new(Algorithm::from(AlgorithmId::MD5)), PasswordAlgorithm::new(Algorithm::new(AlgorithmId::SHA256, Some(&[][..])))]);
        let a: &Algorithm = p.password_algorithms()[0].as_ref();
        (p.iter().count(), a.algorithm(), p.clone().into_iter().map(|x| x.parameters().map(|q| q.len())).collect::<Vec<_>>(), PasswordAlgorithms::default().iter().count())
    });
    np("verifiable-attributes-from-bytes", "any", &none, rep, || {
        let key = HMACKey::new_short_term("k").unwrap();
        let mi = MessageIntegrity::from([7u8; 20]);
        let mi2 = MessageIntegrity::from(&[7u8; 20]);
        let sh = MessageIntegritySha256::from([7u8; 32]);
        let sh2 = MessageIntegritySha256::from(&[7u8; 32]);
        let fp = Fingerprint::from([1u8, 2, 3, 4]);
        let fp2 = Fingerprint::from(&[1u8, 2, 3, 4]);
        let enc = MessageIntegrity::new(key.clone());
        (mi == mi2, sh == sh2, fp == fp2, mi.validate(&[], &key), sh.validate(&[0; 70000], &key), fp.validate(&[]), enc.validate(&[1], &key), Fingerprint::default().validate(&[1]), format!("{:?}{:?}", enc, fp))
    });
    // validate() of the three verifiable attributes is a public entry point that takes ANY byte string: every input of 0..=72
    // bytes (0x00 / 0xFF / a counting pattern) with bytes 2..4 - where a message header keeps its length - set to every value
    // of a 14-entry menu, plus the input texts of real messages handed to the WRONG attribute's validate
    {
        let key = HMACKey::new_short_term("k").unwrap();
        let mi = MessageIntegrity::from([7u8; 20]);
        let sh = MessageIntegritySha256::from([7u8; 32]);
        let fp = Fingerprint::from([1u8, 2, 3, 4]);
        let lens: [u16; 14] = [0, 1, 4, 7, 8, 9, 12, 20, 24, 52, 100, 0x7FFF, 0xFFFC, 0xFFFF];
        for n in 0..=72usize {
            for fill in 0..3u8 {
                for l in lens {
                    let mut input: Vec<u8> = (0..n).map(|i| match fill { 0 => 0u8, 1 => 0xFF, _ => i as u8 }).collect();
                    if n >= 4 {
                        input[2..4].copy_from_slice(&l.to_be_bytes());
                    }
                    let inp = || json!({"api": "validate", "input_len": n, "bytes_2_4": l, "fill": fill});
                    np("Fingerprint::validate", "arbitrary-input", &inp, rep, || fp.validate(&input));
                    np("MessageIntegrity::validate", "arbitrary-input", &inp, rep, || mi.validate(&input, &key));
                    np("MessageIntegritySha256::validate", "arbitrary-input", &inp, rep, || sh.validate(&input, &key));
                }
            }
        }
        // real input texts, each given to every attribute's validate (the text of one attribute is not the text of another)
        for v in crate::seeds::seeds(false).iter().filter(|s| s.label.starts_with("rfc5769") || s.label.contains("+3tail")).take(12) {
            let texts: Vec<Vec<u8>> = [
                stun_rs::get_input_text::<MessageIntegrity>(&v.bytes),
                stun_rs::get_input_text::<MessageIntegritySha256>(&v.bytes),
                stun_rs::get_input_text::<Fingerprint>(&v.bytes),
                Some(v.bytes.clone()),
            ]
            .into_iter()
            .flatten()
            .collect();
            for t in texts {
                let inp = || json!({"api": "validate", "input": "input text of a real message", "len": t.len()});
                np("Fingerprint::validate", "other-attribute's-text", &inp, rep, || fp.validate(&t));
                np("MessageIntegrity::validate", "other-attribute's-text", &inp, rep, || mi.validate(&t, &key));
                np("MessageIntegritySha256::validate", "other-attribute's-text", &inp, rep, || sh.validate(&t, &key));
            }
        }
    }
    // every algorithm identifier a caller can WRITE (the public variants with every u16, not only what From<u16> produces)
    // handed to the long-term key constructor, to Algorithm / PasswordAlgorithm and their accessors
    {
        let mut ids: Vec<AlgorithmId> = vec![AlgorithmId::Reserved, AlgorithmId::MD5, AlgorithmId::SHA256];
        ids.extend((0..=0xFFFFu32).map(|n| AlgorithmId::Unassigned(n as u16)));
        for id in ids {
            let inp = || json!({"api": "AlgorithmId written literally", "id": format!("{:?}", id)});
            np("HMACKey::new_long_term", "algorithm-id-literal", &inp, rep, || HMACKey::new_long_term("user", "realm", "pass", Algorithm::from(id)).is_ok());
            np("Algorithm/PasswordAlgorithm", "algorithm-id-literal", &inp, rep, || {
                let a = Algorithm::new(id, Some(&[1u8, 2][..]));
                let p = PasswordAlgorithm::new(a.clone());
                (u16::from(a.algorithm()), p.algorithm() == id, p.parameters().map(|x| x.len()), format!("{:?} {:?}", a, p), a == Algorithm::from(id))
            });
        }
    }
    np("error-code-attribute", "any", &none, rep, || {
        let e = stun_rs::ErrorCode::new(699, "x").unwrap();
        let a = stun_rs::attributes::stun::ErrorCode::from(e.clone());
        let b = stun_rs::attributes::stun::ErrorCode::new(e);
        (a == b, a.error_code().class(), a.error_code().number(), format!("{:?}", a))
    });
    np("change-request-and-icmp", "any", &none, rep, || {
        let c = d::ChangeRequest::new(Some(d::ChangeRequestFlags::ChangeIp | d::ChangeRequestFlags::ChangePort));
        let c0 = d::ChangeRequest::new(None);
        let i = t::Icmp::new(t::IcmpType::new(127).unwrap(), t::IcmpCode::new(511).unwrap(), [1, 2, 3, 4]);
        (c.flags().bits(), c0.flags().is_empty(), i.icmp_type().get(), i.icmp_code().get(), i.error_data().len(), i.clone() == i, t::IcmpType::new(128).is_none(), t::IcmpCode::new(512).is_none())
    });
    np("builders-and-contexts", "any", &none, rep, || {
        let key = HMACKey::new_short_term("k").unwrap();
        let ctx = DecoderContextBuilder::default().with_key(key).with_validation().with_unknown_data().not_ignore().build();
        let dec = MessageDecoderBuilder::default().with_context(ctx.clone()).build();
        let enc = MessageEncoderBuilder::default().with_context(EncoderContextBuilder::default().with_custom_padding(StunPadding::Random).build()).build();
        let m = StunMessageBuilder::new(methods::BINDING, MessageClass::Indication).with_attribute(Software::new("s").unwrap()).build();
        let mut buf = [0u8; 64];
        let n = enc.encode(&mut buf, &m).unwrap_or(0);
        let back = dec.decode(&buf[..n]).is_ok();
        (ctx.key().is_some(), ctx.validate(), ctx.with_unknown_data(), dec.get_context().is_some(), back, EncoderContextBuilder::default().with_custom_padding(StunPadding::Custom(3)).build().padding(), m.get::<Software>().is_some(), m.get::<Realm>().is_none(), CredentialMechanism::ShortTerm.is_short_term(), CredentialMechanism::LongTerm.is_long_term())
    });
    rep.sym("extra-api");
}

/// build(k <= 3 adds) . clone . mutate either copy (j <= 2 adds) . read both — against a Vec reference
fn clone_sequences(rep: &mut Report) {
    let algs: Vec<PasswordAlgorithm> = vec![
        PasswordAlgorithm::new(Algorithm::from(AlgorithmId::MD5)),
        PasswordAlgorithm::new(Algorithm::from(AlgorithmId::SHA256)),
        PasswordAlgorithm::new(Algorithm::new(AlgorithmId::Unassigned(9), Some(&[1u8, 2, 3][..]))),
    ];
    let ids = |p: &PasswordAlgorithms| -> Vec<u16> { p.iter().map(|a| u16::from(a.algorithm())).collect() };
    // PasswordAlgorithms: construction route x k adds x clone x which copy mutates x j adds
    for route in ["default", "from-vec"] {
        for k in 0..=3usize {
            for which in ["original", "clone"] {
                for j in 0..=2usize {
                    let inp = || json!({"type": "PasswordAlgorithms", "route": route, "adds_before_clone": k, "mutated": which, "adds_after_clone": j});
                    let cls = format!("{}-after-clone", if j == 0 { "read" } else { "add" });
                    np("PasswordAlgorithms::add", &cls, &inp, rep, || {
                        // whether `add` keeps a second copy of an entry that is already there is not stated anywhere: after
                        // every add the list is the old one plus the entry, or (entry already present) the old one; the copy
                        // that is not touched holds exactly what it held
                        let mut ok = true;
                        let step = |t: &mut PasswordAlgorithms, a: &PasswordAlgorithm, ok: &mut bool| {
                            let before = ids(t);
                            t.add(a.clone());
                            let after = ids(t);
                            let x = u16::from(a.algorithm());
                            let mut appended = before.clone();
                            appended.push(x);
                            if !(after == appended || (before.contains(&x) && after == before)) {
                                *ok = false;
                            }
                        };
                        let mut p = if route == "default" {
                            PasswordAlgorithms::default()
                        } else {
                            let v: Vec<PasswordAlgorithm> = algs.iter().take(k).cloned().collect();
                            let want: Vec<u16> = v.iter().map(|a| u16::from(a.algorithm())).collect();
                            let p = PasswordAlgorithms::from(v);
                            ok &= ids(&p) == want;
                            p
                        };
                        if route == "default" {
                            for a in algs.iter().take(k) {
                                step(&mut p, a, &mut ok);
                            }
                        }
                        let mut c = p.clone();
                        let frozen = ids(&p);
                        for a in algs.iter().take(j) {
                            if which == "original" {
                                step(&mut p, a, &mut ok);
                            } else {
                                step(&mut c, a, &mut ok);
                            }
                        }
                        let other_unchanged = if which == "original" { ids(&c) == frozen } else { ids(&p) == frozen };
                        (ok, other_unchanged, p.password_algorithms().len(), c.clone().into_iter().count())
                    })
                    .map(|(a, b, _, _)| {
                        if !(a && b) {
                            rep.violate("clone-not-independent/PasswordAlgorithms", "", inp());
                        } else {
                            rep.nontrivial(&("pa", route, k, which, j));
                        }
                    });
                }
            }
        }
    }
    // UnknownAttributes
    for k in 0..=3usize {
        for which in ["original", "clone"] {
            for j in 0..=2usize {
                let inp = || json!({"type": "UnknownAttributes", "adds_before_clone": k, "mutated": which, "adds_after_clone": j});
                np("UnknownAttributes::add", "after-clone", &inp, rep, || {
                    // (as above: appended, or kept once when already present - either is accepted)
                    let mut ok = true;
                    let step = |t: &mut UnknownAttributes, x: u16, ok: &mut bool| {
                        let before = t.attributes().to_vec();
                        t.add(x);
                        let after = t.attributes().to_vec();
                        let mut appended = before.clone();
                        appended.push(x);
                        if !(after == appended || (before.contains(&x) && after == before)) {
                            *ok = false;
                        }
                    };
                    let mut u = UnknownAttributes::default();
                    for x in 0..k as u16 {
                        step(&mut u, x, &mut ok);
                    }
                    let mut c = u.clone();
                    let frozen = u.attributes().to_vec();
                    for x in 0..j as u16 {
                        let v = 100 + x;
                        if which == "original" {
                            step(&mut u, v, &mut ok);
                            step(&mut u, v, &mut ok); // the same code again
                        } else {
                            step(&mut c, v, &mut ok);
                        }
                    }
                    let other_unchanged = if which == "original" { c.attributes() == frozen.as_slice() } else { u.attributes() == frozen.as_slice() };
                    (ok, other_unchanged, u.iter().count(), u.len())
                })
                .map(|(a, b, _, _)| {
                    if !(a && b) {
                        rep.violate("clone-not-independent/UnknownAttributes", "", inp());
                    } else {
                        rep.nontrivial(&("ua", k, which, j));
                    }
                });
            }
        }
    }
    // UnknownAttributes and PasswordAlgorithms built from long shaped lists (ascending / descending runs of 0..=100 entries,
    // a run followed by an out-of-order entry, duplicates inside), through both construction routes, then cloned, then
    // extended on either copy by a smaller / inside / equal / larger value: never a panic, always the model's list (first
    // occurrence kept, order preserved)
    for n in [0usize, 1, 2, 3, 7, 8, 9, 15, 16, 17, 31, 32, 33, 63, 64, 65, 100] {
        for shape in ["ascending", "descending", "ascending-then-low", "ascending-then-inside-duplicate", "ascending-then-high-then-low"] {
            let mut base: Vec<u16> = (0..n as u16).map(|x| 0x10 + x * 0x10).collect();
            match shape {
                "descending" => base.reverse(),
                "ascending-then-low" => base.push(0x08),
                "ascending-then-inside-duplicate" => {
                    if n >= 2 {
                        base.push(base[n / 2]);
                    }
                }
                "ascending-then-high-then-low" => {
                    base.push(0x7000);
                    base.push(0x09);
                }
                _ => {}
            }
            let top = base.iter().copied().max().unwrap_or(0);
            for route in ["from-slice", "add"] {
                for which in ["original", "clone"] {
                    for extra in [0x01u16, 0x18, top, top.wrapping_add(1), 0xFFFF] {
                        let inp = || json!({"type": "UnknownAttributes", "shape": shape, "entries": n, "route": route, "mutated": which, "added": extra});
                        let base = base.clone();
                        np("UnknownAttributes::add", "long-shaped-list", &inp, rep, move || {
                            // list models: whether a list keeps one entry per code or every entry given is not C19's
                            // question (either is accepted, for construction and for `add`); what is: the value mutated holds
                            // one of the lists the models allow, the OTHER copy holds exactly what it held before
                            let mut dedup: Vec<u16> = vec![];
                            for x in &base {
                                if !dedup.contains(x) {
                                    dedup.push(*x);
                                }
                            }
                            let mut u = if route == "from-slice" {
                                UnknownAttributes::from(base.as_slice())
                            } else {
                                let mut u = UnknownAttributes::default();
                                for x in &base {
                                    u.add(*x);
                                }
                                u
                            };
                            let before = u.attributes().to_vec();
                            let base_ok = before == dedup || before == base;
                            let mut c = u.clone();
                            let target = if which == "original" { &mut u } else { &mut c };
                            target.add(extra);
                            let mut appended = before.clone();
                            appended.push(extra);
                            let kept_one = if before.contains(&extra) { before.clone() } else { appended.clone() };
                            let (t, o) = if which == "original" { (&u, &c) } else { (&c, &u) };
                            let target_ok = t.attributes() == appended.as_slice() || t.attributes() == kept_one.as_slice();
                            (base_ok && target_ok, o.attributes() == before.as_slice(), t.iter().count() == t.attributes().len())
                        })
                        .map(|(a, b, cnt)| {
                            if !(a && b && cnt) {
                                rep.violate(format!("value-differs-from-list-model/UnknownAttributes/{}", shape), "", inp());
                            } else {
                                rep.nontrivial(&("ua-long", n, shape, route, which, extra));
                            }
                        });
                    }
                }
            }
        }
    }
    // agent StunAttributes and stun-rs StunMessageBuilder
    let pool: Vec<StunAttribute> = vec![
        Software::new("s1").unwrap().into(),
        Software::new("s2").unwrap().into(),
        UserName::new("u").unwrap().into(),
        Fingerprint::default().into(),
    ];
    for k in 0..=3usize {
        for which in ["original", "clone"] {
            for j in 0..=2usize {
                let inp = || json!({"type": "StunAttributes", "adds_before_clone": k, "mutated": which, "ops_after_clone": j});
                np("StunAttributes::add/remove", "after-clone", &inp, rep, || {
                    let mut s = stun_agent::StunAttributes::default();
                    for a in pool.iter().take(k) {
                        s.add(a.clone());
                    }
                    let before: Vec<L> = Vec::<StunAttribute>::from(s.clone()).iter().map(from_subject).collect();
                    let mut c = s.clone();
                    let target = if which == "original" { &mut s } else { &mut c };
                    if j >= 1 {
                        target.add(Software::new("changed").unwrap());
                    }
                    if j >= 2 {
                        target.remove::<UserName>();
                        target.remove::<Fingerprint>();
                    }
                    let untouched = if which == "original" { c } else { s };
                    let after: Vec<L> = Vec::<StunAttribute>::from(untouched).iter().map(from_subject).collect();
                    before == after
                })
                .map(|ok| {
                    if !ok {
                        rep.violate("clone-not-independent/StunAttributes", "", inp());
                    } else {
                        rep.nontrivial(&("sa", k, which, j));
                    }
                });
            }
        }
    }
    let inp = || json!({"type": "StunMessageBuilder"});
    np("StunMessageBuilder", "any", &inp, rep, || {
        let m = StunMessageBuilder::new(methods::BINDING, MessageClass::Request).with_attribute(pool[0].clone()).with_attribute(pool[2].clone()).build();
        (m.get::<Software>().is_some(), m.get::<Nonce>().is_none(), m.attributes().len(), format!("{:?}", m).len(), m.transaction_id().len())
    });
    rep.sym("clone-sequences");
}

pub fn run(ctx: &RunCtx) -> i32 {
    let thorough = ctx.thorough();
    let shared = Shared::new();
    let strs = strings_upto3(thorough);
    let apis = [
        "UserName::new",
        "Realm::new",
        "Nonce::new",
        "Software::new",
        "Padding::new",
        "ErrorCode::new",
        "UserHash::new",
        "HMACKey::new_short_term",
        "HMACKey::new_long_term",
    ];
    strs.par_iter().for_each(|s| {
        let mut r = Report::new();
        for api in apis {
            exercise_string_value(api, s, &mut r);
        }
        r.sym("string-constructors");
        if s == "a\"\\" {
            r.sample(json!({"string": s, "apis": apis}));
        }
        shared.merge(r);
    });
    // every nonce "obMatJos2" + 4 symbols + suffix
    let suffixes: &[&str] = if thorough { &["", "x", "\u{80}", "\u{80}x", "\u{80}\u{80}", "\\"] } else { &["", "x", "\u{80}", "\u{80}x"] };
    (0..ALPHABET.len().pow(4)).into_par_iter().for_each(|n| {
        let mut r = Report::new();
        let mut x = n;
        let mut s = String::from("obMatJos2");
        for _ in 0..4 {
            s.push_str(ALPHABET[x % ALPHABET.len()]);
            x /= ALPHABET.len();
        }
        for suf in suffixes {
            let full = format!("{}{}", s, suf);
            let inp = || json!({"api": "Nonce cookie", "nonce": full});
            if let Some(Ok(v)) = np("Nonce::new", "cookie-prefix", &inp, &mut r, || Nonce::new(&full)) {
                let cls = if full.is_ascii() { "ascii-cookie" } else { "non-ascii-within-flag-bytes-or-after" };
                np("Nonce::is_nonce_cookie", cls, &inp, &mut r, || v.is_nonce_cookie());
                if np("Nonce::security_features", cls, &inp, &mut r, || v.security_features().is_ok()).is_some() {
                    r.nontrivial(&full);
                }
            }
        }
        r.sym("cookie-nonces");
        if n == 7 {
            r.sample(json!({"nonce": s, "suffixes": suffixes}));
        }
        shared.merge(r);
    });
    {
        let mut r = Report::new();
        scalar_sweeps(&mut r);
        shared.merge(r);
    }
    {
        let mut r = Report::new();
        let key = crate::seeds::key().subject().unwrap();
        let mut all = menu::body_menu(true);
        all.extend([L::Mi, L::Sha, L::Fp]);
        for l in &all {
            exercise_attribute(l, &key, &mut r);
        }
        // decoded forms: Unknown, decodable integrity / fingerprint
        let dec = crate::cu::decoder(crate::cu::Opts { ctx: true, key: false, validation: false, unknown_data: true, not_ignore: true }, None);
        for s in crate::seeds::unknown_attr_msgs().iter().chain(crate::seeds::seeds(false).iter().filter(|s| s.label.starts_with("rfc5769"))) {
            if let Ok((m, _)) = dec.decode(&s.bytes) {
                for a in m.attributes() {
                    let inp = || json!({"decoded_from": s.label});
                    let n = variant_accessors!(a, &mut r, &inp;
                        unknown, alternate_server, error_code, fingerprint, mapped_address, message_integrity, message_integrity_sha256,
                        nonce, password_algorithm, password_algorithms, realm, software, unknown_attributes, user_hash, user_name,
                        xor_mapped_address, ice_controlled, ice_controlling, priority, use_candidate, channel_number, life_time,
                        xor_peer_address, xor_relayed_address, data, requested_address_family, even_port, dont_fragment,
                        requested_trasport, additional_address_family, reservation_token, address_error_code, icmp, mobility_ticket,
                        change_request, other_address, padding, response_origin, response_port);
                    if n != 1 {
                        r.violate("variant-predicates-not-exclusive", "decoded", inp());
                    }
                    np("decoded-attribute-misc", "any", &inp, &mut r, || {
                        let c = a.clone();
                        let _ = format!("{:?}", c);
                        if let StunAttribute::Unknown(u) = &c {
                            let _ = (u.attribute_type(), u.attribute_data().map(|d| d.len()), u.clone() == *u);
                        }
                        if let StunAttribute::MessageIntegrity(mi) = &c {
                            let _ = mi.validate(&[1, 2, 3], &HMACKey::new_short_term("x").unwrap());
                        }
                        if let StunAttribute::Fingerprint(fp) = &c {
                            let _ = fp.validate(&[]);
                        }
                    });
                }
            }
        }
        r.sym("attribute-accessors");
        extra_api(&mut r);
        clone_sequences(&mut r);
        shared.merge(r);
    }
    let mut rep = shared.into_inner();
    rep.outcome("no-panic");
    rep.outcome(format!("violations:{}", rep.violations.len()));
    let n_str = strs.len();
    crate::util::finish(
        ctx,
        rep,
        Finish {
            level: "exploration",
            rule: format!("{} strings (every string of length <=4 (thorough: <=5) over a {}-symbol alphabet incl. quotes, backslash, TAB, 2-/3-/4-byte and combining characters, plus every string of length <=3 (thorough <=4) over that alphabet widened by 13 normalisation-sensitive code points (NFC growing / shrinking, Hangul jamo, fullwidth, non-ASCII spaces, default-ignorables, DEL, NUL) containing at least one of them, those code points before / after / repeated at lengths around 127 / 254 / 508 / 763, plus lengths 507..510 and 762..764) through every string-taking constructor / conversion (UserName, Realm, Nonce, Nonce::new_nonce_cookie x 4 flag sets, Software, Padding, ErrorCode x 7 codes, UserHash, HMACKey short- and long-term x 3 positions x 4 algorithms) and the accessors and every comparison operator (against the value's own text and six other strings) of every value built, and of the value obtained by DECODING the same bytes as USERNAME / REALM / NONCE; every nonce 'obMatJos2' + 4 alphabet symbols + {} suffixes through is_nonce_cookie / security_features; every u16 through MessageType/MessageMethod/AttributeType/AlgorithmId/ErrorCode/IcmpCode conversions, every u8 through MessageClass/AddressFamily/IcmpType; every attribute of the menu (and decoded Unknown / integrity / fingerprint forms) through all 39 is_/as_ accessors, the matching expect_, attribute_type, Debug, Clone; equality of every PAIR of keys (8 passwords x 3 mechanisms), integrity attributes, algorithms (3 ids x 6 parameter lengths), lists and blobs in both operand orders; build(k<=3).clone.mutate-either(j<=2).read-both for PasswordAlgorithms (2 construction routes), UnknownAttributes and the agent's StunAttributes against a Vec model; UnknownAttributes built from long shaped lists (ascending / descending runs of 0..=100 entries, a run followed by out-of-order or duplicate entries) by both routes, cloned, then extended on either copy by a smaller / inside / equal / larger value, against the list model. Non-trivial = distinct input for which a value was actually constructed and exercised", n_str, ALPHABET.len(), suffixes.len()),
            assumptions: vec!["the documented expect_* panic on a type mismatch is not exercised".into()],
            required_symbols: vec!["string-constructors", "cookie-nonces", "scalar-sweeps", "attribute-accessors", "clone-sequences", "cookie-flags-roundtrip", "extra-api"],
            min_outcomes: 2,
            exhaustive: true,
            bounds: json!({"alphabet": ALPHABET.len(), "max_len": if thorough { 5 } else { 4 }, "strings": n_str}),
        },
    )
}
