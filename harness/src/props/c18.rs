//! C18 Decoder options only filter or decorate; they never change what the bytes mean.

use crate::cu::{self, Decoded, Opts};
use crate::faults::{self, Families};
use crate::refs::codec::{ref_parse, L};
use crate::refs::crypto::hex;
use crate::seeds;
use crate::util::{Finish, Report, RunCtx, Shared};
use rayon::prelude::*;
use serde_json::json;
use stun_rs::MessageDecoder;

type Res = Result<Decoded, String>; // Err = decode error text; panics are reported separately

fn strip_unknown_data(d: &Decoded) -> Decoded {
    let mut x = d.clone();
    for a in x.attrs.iter_mut() {
        if let L::Unknown(t, Some(_)) = a {
            *a = L::Unknown(*t, None);
        }
    }
    x
}

fn is_subsequence(small: &[L], big: &[L]) -> bool {
    let mut it = big.iter();
    small.iter().all(|s| it.any(|b| b == s))
}

fn idx(o: &Opts) -> usize {
    if !o.ctx {
        0
    } else {
        1 + (o.key as usize) + 2 * (o.validation as usize) + 4 * (o.unknown_data as usize) + 8 * (o.not_ignore as usize)
    }
}

pub fn relations(bytes: &[u8], what: &str, decs: &[(Opts, MessageDecoder)], rep: &mut Report) {
    let replay = || json!({"kind": "bytes", "bytes": hex(bytes), "family": what});
    let mut res: Vec<Option<Res>> = vec![None; 17];
    for (o, dec) in decs {
        rep.eval();
        match cu::decode_with(dec, bytes) {
            Err(p) => {
                rep.violate(format!("decoder-panics/{}", crate::util::panic_site(&p)), p, replay());
                return;
            }
            Ok(r) => res[idx(o)] = Some(r.map(|x| x.0)),
        }
    }
    let get = |key: bool, val: bool, unk: bool, ni: bool| -> &Res {
        res[1 + (key as usize) + 2 * (val as usize) + 4 * (unk as usize) + 8 * (ni as usize)].as_ref().unwrap()
    };
    let same = |a: &Res, b: &Res| -> bool {
        match (a, b) {
            (Ok(x), Ok(y)) => x == y,
            (Err(_), Err(_)) => true,
            _ => false,
        }
    };
    let mut ok_any = false;
    // (5) no context == default context
    if !same(res[0].as_ref().unwrap(), get(false, false, false, false)) {
        rep.violate("no-context-differs-from-default-context", "", replay());
    }
    for unk in [false, true] {
        for ni in [false, true] {
            // (2) a key without validation changes nothing
            if !same(get(true, false, unk, ni), get(false, false, unk, ni)) {
                rep.violate("key-without-validation-changes-result", format!("unknown_data={} not_ignore={}", unk, ni), replay());
            }
            // (1) validation on Ok(m) => validation off Ok(m)
            for key in [false, true] {
                if let Ok(v) = get(key, true, unk, ni) {
                    match get(key, false, unk, ni) {
                        Ok(n) if n == v => {}
                        other => rep.violate(
                            "validated-result-differs-from-unvalidated",
                            format!("key={} unknown_data={} not_ignore={}: validated {:?} unvalidated {:?}", key, unk, ni, v.attrs, other.as_ref().map(|d| &d.attrs)),
                            replay(),
                        ),
                    }
                }
            }
        }
    }
    for key in [false, true] {
        for val in [false, true] {
            for ni in [false, true] {
                // (3) unknown-data on == off, except that Unknown carries data
                let (on, off) = (get(key, val, true, ni), get(key, val, false, ni));
                match (on, off) {
                    (Ok(a), Ok(b)) => {
                        if &strip_unknown_data(a) != b {
                            rep.violate("unknown-data-changes-attributes", format!("{:?} vs {:?}", a.attrs, b.attrs), replay());
                        }
                        if b.attrs.iter().any(|x| matches!(x, L::Unknown(_, Some(_)))) {
                            rep.violate("unknown-data-kept-though-not-requested", "", replay());
                        }
                        if a.attrs.iter().any(|x| matches!(x, L::Unknown(_, None))) {
                            rep.violate("unknown-data-missing-though-requested", "", replay());
                        }
                    }
                    (Err(_), Err(_)) => {}
                    _ => rep.violate("unknown-data-changes-acceptance", format!("key={} validation={} not_ignore={}", key, val, ni), replay()),
                }
            }
            for unk in [false, true] {
                // (4) not-ignore: every wire attribute in order; default result is a subsequence of it
                let (all, def) = (get(key, val, unk, true), get(key, val, unk, false));
                if let Ok(a) = all {
                    if let Ok(p) = ref_parse(&bytes[..a.size.min(bytes.len())]) {
                        let types: Vec<u16> = a.attrs.iter().map(|x| x.type_code()).collect();
                        let wire: Vec<u16> = p.tlvs.iter().map(|t| t.ty).collect();
                        if types != wire {
                            rep.violate("not-ignore-does-not-return-every-wire-attribute", format!("{:04x?} vs wire {:04x?}", types, wire), replay());
                        } else if unk {
                            // the raw value bytes of each unknown attribute
                            for (x, t) in a.attrs.iter().zip(p.tlvs.iter()) {
                                if let L::Unknown(_, Some(d)) = x {
                                    if d != &t.value {
                                        rep.violate("unknown-data-is-not-the-raw-value", format!("{} vs {}", hex(d), hex(&t.value)), replay());
                                    } else {
                                        rep.sym("unknown-data-compared");
                                    }
                                }
                            }
                        }
                    } else {
                        rep.violate("decoded-but-reference-reader-rejects", "", replay());
                    }
                    ok_any = true;
                }
                match (all, def) {
                    (Ok(a), Ok(d)) => {
                        if !is_subsequence(&d.attrs, &a.attrs) || a.size != d.size || (a.method, a.class, a.tid) != (d.method, d.class, d.tid) {
                            rep.violate("default-result-is-not-a-subsequence-of-not-ignore-result", format!("{:?} vs {:?}", d.attrs, a.attrs), replay());
                        }
                    }
                    (Err(_), Ok(_)) if !val => {
                        rep.violate("not-ignore-changes-acceptance-without-validation", "", replay());
                    }
                    (Ok(_), Err(_)) if !val => {
                        rep.violate("not-ignore-changes-acceptance-without-validation", "", replay());
                    }
                    _ => {}
                }
            }
        }
    }
    if ok_any {
        rep.nontrivial(bytes);
    }
}

pub fn run(ctx: &RunCtx) -> i32 {
    let thorough = ctx.thorough();
    let key = seeds::key().subject().expect("menu key");
    let raw = seeds::key().ref_bytes();
    let shared = Shared::new();
    let all = seeds::seeds(thorough);
    let n_seeds = all.len();
    all.par_iter().for_each(|s| {
        let decs = super::c03::decoders(&key);
        let mut r = Report::new();
        relations(&s.bytes, "seed", &decs, &mut r);
        r.sym("seeds");
        // every construction route of every configuration decodes the seed like the canonical decoder
        {
            let routes = crate::cu::all_routes(Some(&key), &crate::cu::all_opts());
            let replay = || json!({"kind": "bytes", "bytes": hex(&s.bytes), "seed": s.label});
            let n = crate::cu::routes_agree(&routes, &s.bytes, &mut r, &replay);
            r.add_extra("decoder_construction_routes_compared", n);
            r.sym("decoder-construction-routes");
        }
        let fam = Families { bits: thorough || s.bytes.len() <= 80, bytes: true, truncate: true, lengths: true, strings: true, splice: true };
        faults::single_faults(&s.bytes, fam, &mut |m, class| {
            relations(m, class, &decs, &mut r);
            r.sym(class);
        });
        if s.label.starts_with("unknown-0x8003-len3") {
            r.sample(json!({"seed": s.label, "bytes": hex(&s.bytes), "configurations_compared": 17}));
        }
        shared.merge(r);
    });
    // C09's sequences (length <= 5) with all-correct / all-wrong values
    {
        use super::c09::K;
        use crate::refs::codec::{ref_encode_with, LMsg, Mac};
        let max_len = if thorough { 6 } else { 5 };
        for len in 0..=max_len {
            (0..(1u32 << (2 * len))).into_par_iter().for_each(|n| {
                let decs = super::c03::decoders(&key);
                let mut r = Report::new();
                let mut x = n;
                let mut ls = vec![];
                let mut kinds = vec![];
                for i in 0..len {
                    let k = match x & 3 {
                        0 => K::O,
                        1 => K::Mi,
                        2 => K::Sha,
                        _ => K::Fp,
                    };
                    kinds.push(k);
                    ls.push(match k {
                        K::O => L::Priority(i as u32),
                        K::Mi => L::Mi,
                        K::Sha => L::Sha,
                        K::Fp => L::Fp,
                    });
                    x >>= 2;
                }
                let lm = LMsg { method: 1, class: 2, tid: [8; 12], attrs: ls };
                for mac in [Mac::Good, Mac::Bad] {
                    let bytes = ref_encode_with(&lm, Some(&raw), &vec![mac; len]);
                    relations(&bytes, "kind-sequence", &decs, &mut r);
                    // sequences up to length 3 (they contain attributes behind the integrity / fingerprint attributes) also
                    // through every construction route of every configuration
                    if len <= 3 {
                        let routes = crate::cu::all_routes(Some(&key), &crate::cu::all_opts());
                        let replay = || json!({"kind": "bytes", "bytes": hex(&bytes), "sequence": format!("{:?}", kinds)});
                        let n = crate::cu::routes_agree(&routes, &bytes, &mut r, &replay);
                        r.add_extra("decoder_construction_routes_compared", n);
                    }
                }
                r.sym("kind-sequences");
                shared.merge(r);
            });
        }
    }
    // offset family: unknown attributes (and what follows them) behind a filler at every body offset of
    // menu::offset_points, including values that start beyond message offset 65,535
    {
        use crate::refs::codec::ref_encode;
        let xs = vec![
            vec![L::Unknown(0x7FFE, Some(b"abc".to_vec())), L::Priority(1)],
            vec![L::Unknown(0xFFFF, Some(vec![0xC3]))],
            vec![L::Unknown(0x8003, Some(vec![])), L::Software("s".into())],
        ];
        let tails = vec![vec![], vec![L::Sha, L::Fp], vec![L::Mi, L::Unknown(0x7F00, Some(vec![1, 2, 3, 4, 5]))]];
        let msgs = crate::menu::offset_msgs(thorough, &xs, &tails, [0x72; 12]);
        msgs.par_chunks(16).for_each(|ch| {
            let decs = super::c03::decoders(&key);
            let mut r = Report::new();
            for lm in ch {
                relations(&ref_encode(lm, Some(&raw)), "offset-family", &decs, &mut r);
            }
            r.sym("offset-family");
            shared.merge(r);
        });
    }
    // after the tail: a valid message (each integrity / fingerprint tail, values right) with one more attribute appended
    // inside the header length - well formed, with a malformed VALUE (address family 7, a 2-byte ERROR-CODE, invalid UTF-8
    // in a USERNAME), or announcing more bytes than remain: what a validating decoder does with it, a plain one does too
    {
        use crate::refs::codec::{push_tlv, ref_encode};
        let tails: Vec<Vec<L>> = vec![vec![L::Fp], vec![L::Mi], vec![L::Sha], vec![L::Mi, L::Fp], vec![L::Mi, L::Sha, L::Fp]];
        let extras: Vec<(u16, Vec<u8>, bool)> = vec![
            (0x8022, b"ok".to_vec(), false),
            (0x0020, vec![0x00, 0x07, 0xa1, 0x47, 0xe1, 0x12, 0xa6, 0x43], false),
            (0x0009, vec![0x00, 0x00], false),
            (0x0006, vec![0xff, 0xfe, 0xfd], false),
            (0x0014, vec![], false),
            (0x8022, b"abcd".to_vec(), true),
        ];
        let mut msgs: Vec<Vec<u8>> = vec![];
        for t in &tails {
            for body in [vec![], vec![L::Software("s".into()), L::Priority(3)]] {
                let mut attrs = body.clone();
                attrs.extend(t.clone());
                let base = ref_encode(&crate::menu::lmsg(1, 2, [0x78; 12], attrs), Some(&raw));
                for (ty, val, overlong) in &extras {
                    let mut m = base.clone();
                    push_tlv(&mut m, *ty, val);
                    if *overlong {
                        let n = m.len();
                        m[n - 8 + 2..n - 8 + 4].copy_from_slice(&40u16.to_be_bytes());
                    }
                    let l = (m.len() - 20) as u16;
                    m[2..4].copy_from_slice(&l.to_be_bytes());
                    msgs.push(m);
                }
            }
        }
        msgs.par_chunks(8).for_each(|ch| {
            let decs = super::c03::decoders(&key);
            let mut r = Report::new();
            for b in ch {
                relations(b, "attribute-after-the-tail", &decs, &mut r);
            }
            r.sym("attribute-after-the-tail");
            shared.merge(r);
        });
    }
    // unknown attributes whose values collide under cheap digests: equal length and equal CRC-32 (difference = the CRC
    // polynomial at a byte offset), equal byte sum / XOR (two bytes swapped), reversed, identical - two or three of them
    // in one message, under equal and different types: each must keep exactly its own bytes
    {
        use crate::refs::codec::ref_encode;
        const POLY: [u8; 5] = [0x41, 0x06, 0x71, 0xdb, 0x01];
        let mut msgs = vec![];
        for n in [5usize, 8, 12, 32, 33] {
            let v: Vec<u8> = (0..n).map(|i| (i * 37 + 0x10) as u8).collect();
            let mut variants: Vec<Vec<u8>> = vec![];
            for off in [0, n - 5] {
                let mut c = v.clone();
                for k in 0..5 {
                    c[off + k] ^= POLY[k];
                }
                variants.push(c);
            }
            let mut sw = v.clone();
            sw.swap(0, n - 1);
            variants.push(sw);
            let mut rv = v.clone();
            rv.reverse();
            variants.push(rv);
            variants.push(v.clone());
            for w in variants {
                for (t1, t2) in [(0x7F01u16, 0xFF02u16), (0x7F01, 0x7F01), (0xFF02, 0x7F01)] {
                    for tail in [vec![], vec![L::Fp]] {
                        let mut a = vec![L::Unknown(t1, Some(v.clone())), L::Unknown(t2, Some(w.clone()))];
                        a.extend(tail.clone());
                        msgs.push(crate::menu::lmsg(1, 0, [0x76; 12], a));
                        let mut a = vec![L::Unknown(t1, Some(v.clone())), L::Software("between".into()), L::Unknown(t2, Some(w.clone())), L::Unknown(t1, Some(v.clone()))];
                        a.extend(tail);
                        msgs.push(crate::menu::lmsg(1, 0, [0x76; 12], a));
                    }
                }
            }
        }
        msgs.par_chunks(16).for_each(|ch| {
            let decs = super::c03::decoders(&key);
            let mut r = Report::new();
            for lm in ch {
                relations(&ref_encode(lm, Some(&raw)), "colliding-unknown-values", &decs, &mut r);
            }
            r.sym("colliding-unknown-values");
            shared.merge(r);
        });
    }
    let mut rep = shared.into_inner();
    rep.outcome("relations-hold");
    rep.outcome(format!("violations:{}", rep.violations.len()));
    rep.add_extra("seeds", n_seeds as u64);
    crate::util::finish(
        ctx,
        rep,
        Finish {
            level: "exploration",
            rule: format!("{} seeds (menu messages x tails, RFC 5769 vectors, messages with unknown comprehension-required / -optional attributes of 0..5 value bytes), every single-fault mutant of each (bit flips only for seeds <=80 bytes in the quick tier), and every {{O,MI,SHA,FP}} sequence up to length 5 (6 thorough) with all-correct and all-wrong checksum values; plus the offset family (three unknown-attribute bodies x three tails behind a filler at every 4-aligned body offset 0..=4200 (thorough 16,400), around multiples of 4096 (1024) and at every offset 65,300..=65,532); valid messages with one more attribute appended after their (verifying) integrity / fingerprint tail - well formed, malformed in value, or announcing more bytes than remain; messages with two or three unknown attributes whose values collide under cheap digests (equal length and CRC-32, swapped bytes, reversed, identical; equal and different types); every seed and every kind sequence up to length 3 also decoded through every construction route of every configuration (builder calls in every order, a repeated call, clones of the decoder and of the context, DecoderContext::default(), MessageDecoder::default()), which must agree with the canonical decoder; each byte string decoded under all 16 option combinations and without context, results compared pairwise against the five stated relations. Non-trivial = distinct byte string for which at least one not-ignore configuration decoded successfully", n_seeds),
            assumptions: vec!["raw value bytes of unknown attributes are taken from the independent TLV reader".into()],
            required_symbols: vec!["seeds", "kind-sequences", "offset-family", "decoder-construction-routes", "colliding-unknown-values", "attribute-after-the-tail", "unknown-data-compared", "bit-flip", "attribute-move"],
            min_outcomes: 2,
            exhaustive: true,
            bounds: json!({"seeds": n_seeds}),
        },
    )
}
