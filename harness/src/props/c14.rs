//! C14 Encoding respects the caller's buffer and the 64 KiB message limit.

use super::c01::Keyed;
use crate::cu::{self, Opts};
use crate::menu::{self, KeySpec};
use crate::refs::codec::{ref_encode, value_bytes, LMsg, L};
use crate::util::{Finish, Report, RunCtx, Shared};
use rayon::prelude::*;
use serde_json::json;

fn attr_bytes(lm: &LMsg) -> usize {
    lm.attrs
        .iter()
        .map(|a| {
            let v = match a {
                L::Mi => 20,
                L::Sha => 32,
                L::Fp => 4,
                o => value_bytes(o, &lm.tid).len(),
            };
            4 + v + (4 - v % 4) % 4
        })
        .sum()
}

fn prefill(kind: u8, n: usize) -> Vec<u8> {
    match kind {
        0 => vec![0x00; n],
        1 => vec![0xFF; n],
        _ => (0..n).map(|i| (i * 31 + 7) as u8).collect(),
    }
}

fn small(lm: &LMsg, key: Option<&Keyed>, rep: &mut Report) {
    let msg = match cu::build_msg(lm, key.map(|k| k.subject)) {
        Ok(m) => m,
        Err(_) => return,
    };
    let reference = ref_encode(lm, key.map(|k| k.raw));
    let needed = reference.len();
    let enc = stun_rs::MessageEncoderBuilder::default().build();
    for len in 0..=needed + 8 {
        for fill in 0..3u8 {
            rep.eval();
            let mut buf = prefill(fill, len);
            let before = buf.clone();
            let replay = || json!({"kind": "encode", "msg": cu::show_msg(lm), "buffer_len": len, "needed": needed, "prefill": fill});
            match crate::util::guard(|| enc.encode(&mut buf, &msg).map_err(|e| e.to_string())) {
                Err(p) => rep.violate(format!("encode-panics/{}", crate::util::panic_site(&p)), p, replay()),
                Ok(Ok(n)) => {
                    if len < needed {
                        rep.violate("succeeds-with-short-buffer", format!("returned {} with buffer {} < needed {}", n, len, needed), replay());
                    } else if n != needed || buf[..n] != reference[..] {
                        rep.violate(
                            if len == needed { "wrong-bytes-exact-buffer" } else { "bytes-depend-on-extra-length-or-prefill" },
                            format!("size {} needed {}", n, needed),
                            replay(),
                        );
                    } else if buf[n..] != before[n..] {
                        rep.violate("writes-beyond-returned-size", format!("buffer {} size {}", len, n), replay());
                    } else {
                        rep.nontrivial_by_construction();
                    }
                }
                Ok(Err(_)) => {
                    if len >= needed {
                        rep.violate("fails-with-sufficient-buffer", format!("buffer {} needed {}", len, needed), replay());
                    } else {
                        rep.nontrivial_by_construction();
                    }
                }
            }
        }
    }
}

fn blob(n: usize) -> Vec<u8> {
    (0..n).map(|i| (i % 251) as u8).collect()
}

fn large(lm: &LMsg, key: Option<&Keyed>, what: &str, rep: &mut Report) {
    rep.eval();
    let total = attr_bytes(lm);
    let too_long_value = lm.attrs.iter().any(|a| match a {
        L::Data(v) => v.len() > 65535,
        _ => false,
    });
    let fits = total <= 65535 && !too_long_value;
    let msg = match cu::build_msg(lm, key.map(|k| k.subject)) {
        Ok(m) => m,
        Err(e) => {
            rep.violate("large/constructor-refuses", e, json!({"what": what}));
            return;
        }
    };
    let shape: Vec<String> = lm
        .attrs
        .iter()
        .map(|a| match a {
            L::Data(v) => format!("Data({})", v.len()),
            L::Padding(v) => format!("Padding({})", v.len()),
            o => o.kind().to_string(),
        })
        .collect();
    let replay = || json!({"kind": "large-encode", "shape": shape, "attribute_bytes": total, "boundary_crossed_by": what});
    let cls = if total < 65516 {
        "below-65516"
    } else if total <= 65535 {
        "65516..=65535"
    } else {
        "above-65535"
    };
    let enc = stun_rs::MessageEncoderBuilder::default().build();
    let mut buf = vec![0xEEu8; total + 20 + 64];
    match crate::util::guard(|| enc.encode(&mut buf, &msg).map_err(|e| e.to_string())) {
        Err(p) => rep.violate(format!("large/encode-panics/{}/{}", cls, crate::util::panic_site(&p)), p, replay()),
        Ok(Ok(n)) => {
            if !fits {
                rep.violate(format!("large/encodes-message-that-does-not-fit/{}", cls), format!("returned size {}", n), replay());
                return;
            }
            let reference = ref_encode(lm, key.map(|k| k.raw));
            if n != reference.len() || buf[..n] != reference[..] {
                rep.violate(format!("large/wrong-bytes/{}", cls), format!("size {} reference {}", n, reference.len()), replay());
                return;
            }
            if buf[n..].iter().any(|b| *b != 0xEE) {
                rep.violate("large/writes-beyond-returned-size", "", replay());
                return;
            }
            // decodes back
            let dec = cu::decoder(Opts::none(), None);
            match cu::decode_with(&dec, &buf[..n]) {
                Ok(Ok((d, _))) if d.attrs == lm.attrs && d.size == n => {
                    rep.nontrivial_by_construction();
                    rep.sym("large-fitting-roundtrip");
                }
                other => rep.violate(
                    format!("large/does-not-decode-back/{}", cls),
                    format!("{:?}", other.map(|r| r.map(|x| x.0.size))),
                    replay(),
                ),
            }
        }
        Ok(Err(_)) => {
            if fits {
                rep.violate(format!("large/rejects-message-that-fits/{}", cls), format!("attribute bytes {}", total), replay());
            } else {
                rep.nontrivial_by_construction();
                rep.sym("large-rejected");
            }
        }
    }
}

pub fn run(ctx: &RunCtx) -> i32 {
    let thorough = ctx.thorough();
    let reduced = menu::body_menu(false);
    let full = menu::body_menu(true);
    let spec = KeySpec::Short("VOkJxbRl1RmTxUk/WvJxBt");
    let subj = spec.subject().expect("menu key");
    let raw = spec.ref_bytes();
    let keyed = Keyed { spec: &spec, subject: &subj, raw: &raw };
    let shared = Shared::new();
    let tail_key = |t: &[L]| t.iter().any(|a| matches!(a, L::Mi | L::Sha));

    // (a) singles of the full menu (any size) x all tails; pairs of the reduced menu (<= 260 bytes) x all tails
    full.par_iter().for_each(|a| {
        let mut r = Report::new();
        for tail in menu::TAILS {
            let mut attrs = vec![a.clone()];
            attrs.extend_from_slice(tail);
            let lm = menu::lmsg(1, 0, menu::RFC5769_TID, attrs);
            small(&lm, if tail_key(tail) { Some(&keyed) } else { None }, &mut r);
        }
        r.sym("singles");
        shared.merge(r);
    });
    {
        let mut r = Report::new();
        for tail in menu::TAILS {
            small(&menu::lmsg(1, 1, [0; 12], tail.to_vec()), if tail_key(tail) { Some(&keyed) } else { None }, &mut r);
        }
        r.sample(json!({"msg": "empty body x 8 tails, every buffer length 0..=needed+8 x 3 prefills"}));
        shared.merge(r);
    }
    let pair_menu: Vec<L> = (if thorough { &full } else { &reduced })
        .iter()
        .filter(|a| value_bytes(a, &[0; 12]).len() <= 120)
        .cloned()
        .collect();
    (0..pair_menu.len()).into_par_iter().for_each(|i| {
        let mut r = Report::new();
        for j in 0..pair_menu.len() {
            for tail in menu::TAILS {
                let mut attrs = vec![pair_menu[i].clone(), pair_menu[j].clone()];
                attrs.extend_from_slice(tail);
                let lm = menu::lmsg(3, 2, [0x11; 12], attrs);
                small(&lm, if tail_key(tail) { Some(&keyed) } else { None }, &mut r);
                if i == 2 && j == 5 && tail.len() == 2 {
                    r.sample(json!({"msg": cu::show_msg(&lm), "buffer_lengths": "0..=needed+8", "prefills": 3}));
                }
            }
        }
        r.sym("pairs");
        shared.merge(r);
    });

    // (b) large messages around the 16-bit limit
    let mut cases: Vec<(LMsg, bool, &'static str)> = vec![];
    let tid = [0x77u8; 12];
    // boundary crossed by the first (only) attribute: every value length so that 4+n covers 65,440..=65,560
    for n in 65436..=65556usize {
        cases.push((menu::lmsg(1, 1, tid, vec![L::Data(blob(n))]), false, "first"));
    }
    // boundary crossed by the last of two / three attributes, and by each member of the tail
    for m in 5420..=5560usize {
        cases.push((menu::lmsg(1, 1, tid, vec![L::Data(blob(60000)), L::Data(blob(m))]), false, "last-of-two"));
    }
    for m in 35300..=35440usize {
        cases.push((menu::lmsg(1, 1, tid, vec![L::Data(blob(30000)), L::Data(blob(m)), L::Software("s".into())]), false, "middle-of-three"));
    }
    for m in 1380..=1520usize {
        // Padding at its 64000 limit first
        cases.push((menu::lmsg(1, 0, tid, vec![L::Padding(menu::rep('p', 64000)), L::Data(blob(m))]), false, "last-after-padding-64000"));
    }
    for base in (65400..=65536usize).step_by(4) {
        for tail in [&[L::Mi][..], &[L::Sha][..], &[L::Fp][..], &[L::Mi, L::Sha, L::Fp][..]] {
            let mut attrs = vec![L::Data(blob(base - 4))];
            attrs.extend_from_slice(tail);
            cases.push((menu::lmsg(1, 0, tid, attrs), true, "tail"));
        }
    }
    for n in [65535usize, 65536, 65537, 70000, 131072] {
        cases.push((menu::lmsg(1, 1, tid, vec![L::Data(blob(n))]), false, "far-above"));
        cases.push((menu::lmsg(1, 1, tid, vec![L::Data(blob(40000)), L::Data(blob(n - 30000)), L::Fp]), false, "far-above-two"));
    }
    // boundary crossed by attributes without a value (USE-CANDIDATE, DONT-FRAGMENT, an empty SOFTWARE), one to three of
    // them after a body of 65,500..=65,536 bytes
    for base in (65_500..=65_536usize).step_by(4) {
        for k in 1..=3usize {
            for empty in [L::UseCandidate, L::DontFragment, L::Software(String::new())] {
                let mut attrs = vec![L::Data(blob(base - 4))];
                for j in 0..k {
                    attrs.push(if j == 0 { empty.clone() } else { [L::UseCandidate, L::DontFragment][j % 2].clone() });
                }
                cases.push((menu::lmsg(1, 0, tid, attrs), false, "value-less-attribute"));
            }
        }
    }
    // boundary crossed by one representative of EVERY attribute kind: the body ends 4 bytes below, exactly at and 4 bytes
    // above the 65,532-byte maximum with that attribute last, and with one more PRIORITY behind it
    for a in menu::kind_reps() {
        let sz = menu::body_size(std::slice::from_ref(&a), &tid);
        for end in [65_528usize, 65_532, 65_536] {
            if end < sz + 8 {
                continue;
            }
            let filler = end - sz;
            cases.push((menu::lmsg(1, 2, tid, vec![L::Data(blob(filler - 4)), a.clone()]), false, "each-kind-last"));
            if end >= sz + 16 {
                cases.push((menu::lmsg(1, 2, tid, vec![L::Data(blob(filler - 12)), a.clone(), L::Priority(1)]), false, "each-kind-before-last"));
            }
        }
    }
    // one attribute holding a giant list: UNKNOWN-ATTRIBUTES with up to 65,535 entries (fits up to 32,764), and
    // PASSWORD-ALGORITHMS with thousands of entries, around and far beyond the limit
    for n in [32_000usize, 32_763, 32_764, 32_765, 32_766, 32_767, 32_768, 32_769, 33_068, 40_000, 52_768, 65_535] {
        cases.push((menu::lmsg(1, 3, tid, vec![L::UnknownAttributes((0..n as u32).map(|x| x as u16).collect())]), false, "giant-unknown-attributes-list"));
    }
    for n in [8_000usize, 16_382, 16_383, 16_384, 20_000] {
        cases.push((menu::lmsg(1, 3, tid, vec![L::PasswordAlgorithms((0..n).map(|k| (1 + (k % 2) as u16, vec![]).clone()).collect())]), false, "giant-password-algorithms-list"));
    }
    let n_large = cases.len();
    cases.par_iter().for_each(|(lm, k, what)| {
        let mut r = Report::new();
        large(lm, if *k { Some(&keyed) } else { None }, what, &mut r);
        r.sym("large-cases");
        shared.merge(r);
    });

    let mut rep = shared.into_inner();
    rep.outcome("ok-iff-buffer-sufficient");
    rep.outcome(format!("violations:{}", rep.violations.len()));
    rep.add_extra("large_cases", n_large as u64);
    crate::util::finish(
        ctx,
        rep,
        Finish {
            level: "exploration",
            rule: format!("every buffer length 0..=needed+8 x 3 pre-fills for every single-attribute message of the {}-entry menu x 8 tails, for the empty body x 8 tails and for every ordered pair over the {}-entry (values <=120 bytes) menu x 8 tails; {} large messages walking every attribute-byte total across 65,440..=65,560 with the boundary crossed by the first, last, middle attribute or a member of the tail, plus 65,535..131,072-byte values; the boundary crossed by one to three value-less attributes (USE-CANDIDATE, DONT-FRAGMENT, empty SOFTWARE) after 65,500..=65,536 body bytes, and by one representative of every attribute kind ending 4 below / at / 4 above the 65,532-byte maximum (last, and followed by a PRIORITY); single attributes holding giant lists (UNKNOWN-ATTRIBUTES with 32,000..65,535 entries, PASSWORD-ALGORITHMS with 8,000..20,000 entries). Non-trivial = (message, length, prefill) whose result matched 'Ok with reference bytes and untouched tail iff long enough' / large case that round-tripped or was refused as expected", full.len(), pair_menu.len(), n_large),
            assumptions: vec!["needed size and reference bytes come from R-codec".into()],
            required_symbols: vec!["singles", "pairs", "large-cases", "large-fitting-roundtrip", "large-rejected"],
            min_outcomes: 2,
            exhaustive: true,
            bounds: json!({"extra_buffer": 8, "prefills": 3, "pair_menu": pair_menu.len(), "large_cases": n_large}),
        },
    )
}
