//! C09 Ordering rule for integrity / FINGERPRINT — exhaustive over all 87,380 kind sequences (+ empty).

use crate::cu::{self, Opts};
use crate::menu::{self, KeySpec};
use crate::refs::codec::{ref_encode_with, LMsg, Mac, L};
use crate::refs::crypto::hex;
use crate::util::{Finish, Report, RunCtx, Shared};
use rayon::prelude::*;
use serde_json::json;

#[derive(Clone, Copy, PartialEq, Eq, Debug, Hash)]
pub enum K {
    O,
    Mi,
    Sha,
    Fp,
}

/// R-admit: the RFC 8489 §14 ordering rule, transcribed from the statement of C09.
pub fn admit(seq: &[K]) -> Vec<usize> {
    let (mut mi, mut sha, mut fp) = (false, false, false);
    let mut out = vec![];
    for (i, k) in seq.iter().enumerate() {
        let ok = match k {
            K::O => !(mi || sha || fp),
            K::Mi => !(mi || sha || fp),
            K::Sha => !(sha || fp),
            K::Fp => !fp,
        };
        if ok {
            out.push(i);
        }
        match k {
            K::O => {}
            K::Mi => mi = true,
            K::Sha => sha = true,
            K::Fp => fp = true,
        }
    }
    out
}

fn seq_of(mut n: u32, len: usize) -> Vec<K> {
    let mut v = Vec::with_capacity(len);
    for _ in 0..len {
        v.push(match n & 3 {
            0 => K::O,
            1 => K::Mi,
            2 => K::Sha,
            _ => K::Fp,
        });
        n >>= 2;
    }
    v
}

fn show(seq: &[K]) -> String {
    seq.iter()
        .map(|k| match k {
            K::O => "O",
            K::Mi => "MI",
            K::Sha => "SHA",
            K::Fp => "FP",
        })
        .collect::<Vec<_>>()
        .join(",")
}

/// ordinary attributes of a type the library has no decoder for (comprehension-optional / comprehension-required)
pub const O_UNKNOWN_OPTIONAL: usize = usize::MAX - 1;
pub const O_UNKNOWN_REQUIRED: usize = usize::MAX - 2;
pub const O_SOFTWARE: usize = usize::MAX - 3;

/// `big` > 0: the first ordinary attribute is a DATA blob of that many bytes (what follows sits deep in the message);
/// the `O_*` constants instead select another kind for EVERY ordinary attribute.
fn logical(seq: &[K], big: usize) -> Vec<L> {
    let first_o = seq.iter().position(|k| *k == K::O);
    seq.iter()
        .enumerate()
        .map(|(i, k)| match k {
            K::O if big == O_UNKNOWN_OPTIONAL => L::Unknown(0xFF31, Some(vec![i as u8, 2, 3, 4])),
            K::O if big == O_UNKNOWN_REQUIRED => L::Unknown(0x7F31, Some(vec![i as u8, 2, 3])),
            K::O if big == O_SOFTWARE => L::Software(format!("s{}", i)),
            K::O if big > 0 && Some(i) == first_o => L::Data((0..big).map(|x| (x * 17 + 3) as u8).collect()),
            K::O => L::Priority(i as u32 + 1),
            K::Mi => L::Mi,
            K::Sha => L::Sha,
            K::Fp => L::Fp,
        })
        .collect()
}

fn seen_before(seq: &[K], i: usize) -> String {
    let mut s = vec![];
    for k in [K::Mi, K::Sha, K::Fp] {
        if seq[..i].contains(&k) {
            s.push(show(&[k]));
        }
    }
    if s.is_empty() {
        "nothing".into()
    } else {
        s.join("+")
    }
}

/// classify the first disagreement between the expected and obtained attribute lists
fn classify(seq: &[K], big: usize, want_pos: &[usize], got: &[L]) -> String {
    let ls = logical(seq, big);
    let want: Vec<&L> = want_pos.iter().map(|i| &ls[*i]).collect();
    // walk the wire sequence and find the first wire index whose admission differs
    let mut gi = 0;
    for (i, l) in ls.iter().enumerate() {
        let expected = want_pos.contains(&i);
        let present = gi < got.len() && &got[gi] == l;
        if present {
            gi += 1;
        }
        if expected != present {
            return format!(
                "{}:{}-after-{}",
                if present { "admitted-but-not-admissible" } else { "admissible-but-dropped" },
                show(&[seq[i]]),
                seen_before(seq, i)
            );
        }
    }
    let _ = want;
    "other".into()
}

fn check_seq(seq: &[K], big: usize, key_subj: &stun_rs::HMACKey, key_raw: &[u8], full_subsets: bool, rep: &mut Report) {
    let ls = logical(seq, big);
    let lm = LMsg { method: 1, class: 2, tid: menu::RFC5769_TID, attrs: ls.clone() };
    let want_pos = admit(seq);
    let want: Vec<L> = want_pos.iter().map(|i| ls[*i].clone()).collect();
    let verifiable: Vec<usize> = (0..seq.len()).filter(|i| seq[*i] != K::O).collect();
    // which wrong-value subsets to try
    let mut subsets: Vec<Vec<usize>> = vec![vec![]];
    if full_subsets {
        for n in 1..(1u32 << verifiable.len()) {
            subsets.push(verifiable.iter().enumerate().filter(|(b, _)| n & (1 << b) != 0).map(|(_, i)| *i).collect());
        }
    } else {
        for i in &verifiable {
            subsets.push(vec![*i]);
        }
        if verifiable.len() > 1 {
            subsets.push(verifiable.clone());
        }
    }
    // sequences up to length 4: every construction route of every decoder configuration (builder calls in every order,
    // repeated calls, clones, DecoderContext::default(), MessageDecoder::default()) must agree with the canonical decoder
    let routes = if big == 0 && seq.len() <= 4 { Some(cu::all_routes(Some(key_subj), &cu::all_opts())) } else { None };
    // ... and one more variant: every repeated attribute carries a verbatim COPY of the value of the first attribute of its
    // kind (a wrong value for its own position that equals an admitted attribute's value)
    let dups: Vec<usize> = (0..seq.len()).filter(|i| seq[*i] != K::O && seq[..*i].contains(&seq[*i])).collect();
    let mut variants: Vec<(Vec<usize>, bool)> = subsets.iter().map(|b| (b.clone(), false)).collect();
    if !dups.is_empty() {
        variants.push((dups, true));
    }
    for (bad, copies) in &variants {
        let macs: Vec<Mac> = (0..seq.len()).map(|i| if bad.contains(&i) { if *copies { Mac::SameAsFirst } else { Mac::Bad } } else { Mac::Good }).collect();
        let bytes = ref_encode_with(&lm, Some(key_raw), &macs);
        let replay = || json!({"kind": "sequence", "sequence": show(seq), "first_ordinary_is_data_of_bytes": big, "wrong_values_at": bad, "bytes": hex(&bytes)});
        if let Some(rt) = &routes {
            let n = cu::routes_agree(rt, &bytes, rep, &replay);
            rep.add_extra("decoder_construction_routes_compared", n);
            rep.sym("decoder-construction-routes");
        }
        for o in cu::all_opts() {
            rep.eval();
            let dec = cu::decoder(o, Some(key_subj));
            let res = match cu::decode_with(&dec, &bytes) {
                Err(p) => {
                    rep.violate(format!("decode-panics/{}", crate::util::panic_site(&p)), p, replay());
                    continue;
                }
                Ok(r) => r.map(|(d, _)| d),
            };
            let validating = o.ctx && o.validation;
            let ignore = !(o.ctx && o.not_ignore);
            if ignore {
                // an admitted verifiable attribute validates iff its value is right and (for MACs) a key is configured
                let admitted_invalid = want_pos.iter().any(|i| {
                    seq[*i] != K::O && (bad.contains(i) || (seq[*i] != K::Fp && !(o.ctx && o.key)))
                });
                let expect_ok = !validating || !admitted_invalid;
                match (&res, expect_ok) {
                    (Ok(d), true) => {
                        let strip = |v: &[L]| -> Vec<L> {
                            v.iter().map(|a| match a { L::Unknown(t, _) if !(o.ctx && o.unknown_data) => L::Unknown(*t, None), x => x.clone() }).collect()
                        };
                        let want = strip(&want);
                        if d.attrs != want {
                            rep.violate(
                                format!("admission/{}", classify(seq, big, &want_pos, &d.attrs)),
                                format!("[{}] under {} decoded to {:?}, rule admits positions {:?}", show(seq), o.show(), d.attrs, want_pos),
                                replay(),
                            );
                        } else {
                            rep.nontrivial(&(seq, bad, o));
                        }
                    }
                    (Err(e), true) => {
                        // is the failure caused by validating an attribute that is not admitted?
                        rep.violate(
                            format!("decode-fails-though-admitted-attributes-are-valid/{}", classify_err(seq, &want_pos, bad, e)),
                            format!("[{}] wrong values at {:?} under {}: {}", show(seq), bad, o.show(), e),
                            replay(),
                        );
                    }
                    (Ok(d), false) => {
                        rep.violate(
                            "validation-accepts-invalid-admitted-attribute",
                            format!("[{}] wrong values at {:?} under {} decoded {:?}", show(seq), bad, o.show(), d.attrs),
                            replay(),
                        );
                    }
                    (Err(_), false) => {
                        rep.nontrivial(&(seq, bad, o));
                    }
                }
            } else {
                // ordering rule disabled: every wire attribute in order (validation may reject)
                match &res {
                    Ok(d) => {
                        let ls: Vec<L> = ls.iter().map(|a| match a { L::Unknown(t, _) if !(o.ctx && o.unknown_data) => L::Unknown(*t, None), x => x.clone() }).collect();
                        if d.attrs != ls {
                            rep.violate(
                                "not-ignore-does-not-return-all-wire-attributes",
                                format!("[{}] under {} decoded {:?}", show(seq), o.show(), d.attrs),
                                replay(),
                            );
                        } else {
                            rep.nontrivial(&(seq, bad, o));
                        }
                    }
                    Err(e) => {
                        if !validating {
                            rep.violate(
                                "not-ignore-decode-fails-without-validation",
                                format!("[{}] under {}: {}", show(seq), o.show(), e),
                                replay(),
                            );
                        }
                    }
                }
            }
        }
        // H2: the agent's own iterator, on the fully decoded list
        if bad.is_empty() {
            let o = Opts { ctx: true, key: false, validation: false, unknown_data: false, not_ignore: true };
            if let Ok(Ok((_, m))) = cu::decode_with(&cu::decoder(o, None), &bytes) {
                rep.eval();
                match crate::util::guard(|| stun_agent::verif_hooks::verif_protected_positions(m.attributes())) {
                    Ok(p) if p == want_pos => {
                        rep.sym("agent-iterator-compared");
                    }
                    Ok(p) => rep.violate(
                        format!("agent-iterator/{}", classify_pos(seq, &want_pos, &p)),
                        format!("[{}] agent iterator yields positions {:?}, rule admits {:?}", show(seq), p, want_pos),
                        replay(),
                    ),
                    Err(e) => rep.violate("agent-iterator-panics", e, replay()),
                }
            }
        }
    }
}

fn classify_pos(seq: &[K], want: &[usize], got: &[usize]) -> String {
    for i in 0..seq.len() {
        let (w, g) = (want.contains(&i), got.contains(&i));
        if w != g {
            return format!(
                "{}:{}-after-{}",
                if g { "admitted-but-not-admissible" } else { "admissible-but-dropped" },
                show(&[seq[i]]),
                seen_before(seq, i)
            );
        }
    }
    "order".into()
}

fn classify_err(seq: &[K], want: &[usize], bad: &[usize], err: &str) -> String {
    // the decoder names the position of the attribute it refused
    if let Some(ix) = err.find("position: ") {
        let digits: String = err[ix + 10..].chars().take_while(|c| c.is_ascii_digit()).collect();
        if let Ok(p) = digits.parse::<usize>() {
            if p < seq.len() && !want.contains(&p) {
                return format!("validated-non-admitted-{}-after-{}", show(&[seq[p]]), seen_before(seq, p));
            }
        }
    }
    // the first wrong-valued attribute that is not admitted is the natural suspect
    for i in bad {
        if !want.contains(i) {
            return format!("wrong-value-in-non-admitted-{}-after-{}", show(&[seq[*i]]), seen_before(seq, *i));
        }
    }
    // otherwise some non-admitted verifiable attribute was validated although its value is right for its own position
    for i in 0..seq.len() {
        if seq[i] != K::O && !want.contains(&i) {
            return format!("non-admitted-{}-after-{}", show(&[seq[i]]), seen_before(seq, i));
        }
    }
    "all-admitted".into()
}

pub fn run(ctx: &RunCtx) -> i32 {
    let thorough = ctx.thorough();
    let spec = KeySpec::Short("VOkJxbRl1RmTxUk/WvJxBt");
    let subj = spec.subject().expect("menu key");
    let raw = spec.ref_bytes();
    let shared = Shared::new();
    let full_subsets_upto = if thorough { 8 } else { 6 };
    let mut total = 0u64;
    for len in 0..=8usize {
        let count = 1u32 << (2 * len);
        total += count as u64;
        (0..count).into_par_iter().for_each(|n| {
            let mut r = Report::new();
            let seq = seq_of(n, len);
            check_seq(&seq, 0, &subj, &raw, len <= full_subsets_upto, &mut r);
            if n == 0x2d && len == 4 {
                r.sample(json!({"sequence": show(&seq), "rule_admits_positions": admit(&seq)}));
            }
            if n == 0xE4E4 && len == 8 {
                r.sample(json!({"sequence": show(&seq), "rule_admits_positions": admit(&seq)}));
            }
            r.sym("sequences");
            shared.merge(r);
        });
    }
    // deep variants: every sequence of length 1..=5 (thorough 6) with at least one ordinary attribute, the first ordinary
    // one being a DATA blob of 1000 / 4100 / 20,000 / 65,000 bytes (dropped when the body would exceed 65,532 bytes)
    {
        let bigs: &[usize] = &[1000, 4100, 20_000, 65_000];
        let max_len = if thorough { 6 } else { 5 };
        for len in 1..=max_len {
            (0..(1u32 << (2 * len))).into_par_iter().for_each(|n| {
                let seq = seq_of(n, len);
                if !seq.contains(&K::O) {
                    return;
                }
                let mut r = Report::new();
                for big in bigs {
                    if menu::body_size(&logical(&seq, *big), &menu::RFC5769_TID) <= 65_532 {
                        check_seq(&seq, *big, &subj, &raw, false, &mut r);
                        r.sym("deep-sequences");
                    }
                }
                shared.merge(r);
            });
        }
    }
    // other kinds of ordinary attribute: types the library has no decoder for (comprehension-optional and -required) and
    // SOFTWARE, every sequence of length <= 5 (thorough 6)
    {
        let max_len = if thorough { 6 } else { 5 };
        for len in 1..=max_len {
            (0..(1u32 << (2 * len))).into_par_iter().for_each(|n| {
                let seq = seq_of(n, len);
                if !seq.contains(&K::O) {
                    return;
                }
                let mut r = Report::new();
                for kind in [O_UNKNOWN_OPTIONAL, O_UNKNOWN_REQUIRED, O_SOFTWARE] {
                    check_seq(&seq, kind, &subj, &raw, false, &mut r);
                }
                r.sym("other-ordinary-kinds");
                shared.merge(r);
            });
        }
    }
    let mut rep = shared.into_inner();
    rep.outcome("admission-agrees");
    rep.outcome(format!("violations:{}", rep.violations.len()));
    rep.add_extra("sequences_enumerated", total);
    crate::util::finish(
        ctx,
        rep,
        Finish {
            level: "exploration",
            rule: format!("all {} sequences of length 0..=8 over {{ordinary, MI, SHA256, FINGERPRINT}} built by the reference codec; wrong-value variants: all subsets of verifiable attributes up to length {}, beyond that none / each single / all, plus one variant in which every repeated attribute is a verbatim copy of the first of its kind; each byte string decoded under all 16 option combinations and without context and compared with the 12-line admit rule; the agent's iterator compared on every sequence; for sequences up to length 4 every construction route of every decoder configuration (builder calls in every order, a repeated call, clones of decoder and context, DecoderContext::default(), MessageDecoder::default()) must give the canonical decoder's result; every sequence of length 1..=5 (thorough 6) containing an ordinary attribute again with the first ordinary attribute a DATA blob of 1000 / 4100 / 20,000 / 65,000 bytes (wrong values: none / each single / all). Non-trivial = distinct (sequence, wrong-set, options) triple whose result agreed with the rule", total, full_subsets_upto),
            assumptions: vec![
                "ordinary attributes are PRIORITY with distinct values (all lengths), and for sequences up to length 5 / 6 also attributes of unregistered types (comprehension-optional 0xFF31, comprehension-required 0x7F31) and SOFTWARE".into(),
                "with validation and no key an admitted MAC cannot validate (library contract), FINGERPRINT needs no key".into(),
                "with the ordering rule disabled and validation on only 'all attributes or an error' is required".into(),
            ],
            required_symbols: vec!["sequences", "agent-iterator-compared", "deep-sequences", "decoder-construction-routes", "other-ordinary-kinds"],
            min_outcomes: 2,
            exhaustive: true,
            bounds: json!({"max_len": 8, "sequences": total, "full_subsets_upto_len": full_subsets_upto}),
        },
    )
}
