//! C04 Message integrity accepts exactly the untampered message under the right key — E1 x E2.

use super::c01::Keyed;
use crate::cu::{self, Opts};
use crate::menu::{self, KeySpec};
use crate::refs::codec::{ref_encode, ref_parse, value_bytes, LMsg, L, T_MI, T_SHA};
use crate::refs::crypto::hex;
use crate::util::{guard, Finish, Report, RunCtx, Shared};
use rayon::prelude::*;
use serde_json::json;
use stun_rs::attributes::stun::{MessageIntegrity, MessageIntegritySha256};
use stun_rs::{HMACKey, MessageDecoder, StunAttribute};

/// Is `bytes` accepted as authenticated by an integrity attribute of kind `ty` under `key`?
/// Two acceptance routes exist in the API and both are tried: the validating decoder, and the
/// get_input_text + validate pair the agent uses.
pub fn accepted(bytes: &[u8], ty: u16, key: &HMACKey, plain: &MessageDecoder, validating: &MessageDecoder) -> Result<bool, String> {
    accepted_each(bytes, ty, key, plain, validating).map(|(a, b)| a || b)
}

/// (accepted by the validating decoder, accepted by get_input_text + validate): a tampered message must be refused by both,
/// an untampered one accepted by both
pub fn accepted_each(bytes: &[u8], ty: u16, key: &HMACKey, plain: &MessageDecoder, validating: &MessageDecoder) -> Result<(bool, bool), String> {
    guard(|| {
        let mut by_decoder = false;
        let mut by_validate = false;
        let has = |m: &stun_rs::StunMessage| {
            m.attributes().iter().any(|a| match a {
                StunAttribute::MessageIntegrity(_) => ty == T_MI,
                StunAttribute::MessageIntegritySha256(_) => ty == T_SHA,
                _ => false,
            })
        };
        if let Ok((m, _)) = validating.decode(bytes) {
            if has(&m) {
                by_decoder = true;
            }
        }
        if let Ok((m, _)) = plain.decode(bytes) {
            for a in m.attributes() {
                match a {
                    StunAttribute::MessageIntegrity(x) if ty == T_MI => {
                        if let Some(input) = stun_rs::get_input_text::<MessageIntegrity>(bytes) {
                            if x.validate(&input, key) {
                                by_validate = true;
                            }
                        }
                    }
                    StunAttribute::MessageIntegritySha256(x) if ty == T_SHA => {
                        if let Some(input) = stun_rs::get_input_text::<MessageIntegritySha256>(bytes) {
                            if x.validate(&input, key) {
                                by_validate = true;
                            }
                        }
                    }
                    _ => {}
                }
            }
        }
        (by_decoder, by_validate)
    })
}

fn kind_name(ty: u16) -> &'static str {
    if ty == T_MI {
        "MI"
    } else {
        "SHA256"
    }
}

fn check_msg(lm: &LMsg, k: &Keyed, near: &[(KeySpec, HMACKey)], walk_faults: bool, rep: &mut Report) {
    rep.eval();
    let replay = || json!({"kind": "message", "msg": cu::show_msg(lm), "key": k.spec.show()});
    let msg = match cu::build_msg(lm, Some(k.subject)) {
        Ok(m) => m,
        Err(_) => return,
    };
    let reference = ref_encode(lm, Some(k.raw));
    // (i) MAC bytes on the wire are the RFC HMAC under the independently derived key
    let enc = match cu::encode_into(&msg, reference.len() + 16, 0) {
        Ok(Ok((n, b))) => b[..n].to_vec(),
        other => {
            rep.violate("encode-fails", format!("{:?}", other.map(|r| r.map(|x| x.0))), replay());
            return;
        }
    };
    if enc != reference {
        let off = enc.iter().zip(reference.iter()).position(|(a, b)| a != b).unwrap_or(0);
        let p = ref_parse(&reference).ok();
        let which = p
            .and_then(|p| p.tlvs.iter().find(|t| off >= t.off && off < t.off + 4 + t.value.len()).map(|t| t.ty))
            .map(|t| if t == T_MI { "MI-value" } else if t == T_SHA { "SHA256-value" } else { "other" })
            .unwrap_or("other");
        rep.violate(
            format!("mac-on-wire-is-not-the-rfc-hmac/{}/{}", which, match k.spec { KeySpec::Short(_) => "short-term", KeySpec::Long { sha256: true, .. } => "long-term-sha256", _ => "long-term-md5" }),
            format!("first difference at {}", off),
            replay(),
        );
        return;
    }
    let plain = cu::decoder(Opts::default_ctx(), None);
    let o = Opts { ctx: true, key: true, validation: true, unknown_data: false, not_ignore: false };
    let validating = cu::decoder(o, Some(k.subject));
    let p = ref_parse(&enc).expect("reference parses its own output");
    let macs: Vec<_> = p.tlvs.iter().filter(|t| t.ty == T_MI || t.ty == T_SHA).cloned().collect();
    // (ii) + (iv): each integrity attribute validates, whatever legal tail follows it
    // attribute objects outlive the message: clones of the attributes of the message just encoded, put into a message with
    // another transaction id, must carry the MAC of THAT message
    {
        let mut lm2 = lm.clone();
        for b in lm2.tid.iter_mut() {
            *b ^= 0x5A;
        }
        let msg2 = cu::reissue(&msg, lm2.tid);
        let want2 = ref_encode(&lm2, Some(k.raw));
        match cu::encode_into(&msg2, want2.len() + 16, 0) {
            Ok(Ok((n, b))) if b[..n.min(b.len())] == want2[..] => rep.sym("reissued-with-cloned-attributes"),
            other => {
                rep.violate(
                    "message-reissued-with-cloned-attributes-carries-wrong-bytes",
                    format!("{:?}", other.map(|r| r.map(|x| x.0))),
                    replay(),
                );
                return;
            }
        }
    }
    // every way of building the validating decoder (builder call order, repeated calls, clones) gives the same verdict on
    // the untampered message and on one with the last MAC byte flipped (one message in 16, chosen by a hash of its bytes)
    if crate::util::hash64(&enc) % 16 == 0 {
        let vopts: Vec<Opts> = cu::all_opts().into_iter().filter(|o| o.ctx && o.key && o.validation).collect();
        let routes = cu::all_routes(Some(k.subject), &vopts);
        let mut tampered = enc.clone();
        if let Some(t) = macs.last() {
            tampered[t.off + 4 + t.value.len() - 1] ^= 0x01;
        }
        let n = cu::routes_agree(&routes, &enc, rep, &replay) + cu::routes_agree(&routes, &tampered, rep, &replay);
        rep.add_extra("decoder_construction_routes_compared", n);
        rep.sym("decoder-construction-routes");
    }
    for t in &macs {
        match accepted_each(&enc, t.ty, k.subject, &plain, &validating) {
            Ok((true, true)) => {
                rep.sym("accepted-untampered");
            }
            Ok((d, v)) => {
                let tail: Vec<&str> = lm.attrs.iter().filter(|a| matches!(a, L::Mi | L::Sha | L::Fp)).map(|a| a.kind()).collect();
                let by = if !d && !v { "" } else if !d { "/by-the-validating-decoder" } else { "/by-get_input_text-and-validate" };
                rep.violate(format!("untampered-message-rejected{}/{}/tail={}", by, kind_name(t.ty), tail.join("+")), "", replay());
                return;
            }
            Err(pn) => {
                rep.violate(format!("validation-panics/{}", crate::util::panic_site(&pn)), pn, replay());
                return;
            }
        }
    }
    // (iii-a) wrong keys differing in one character
    for (ns, nk) in near {
        let nval = cu::decoder(o, Some(nk));
        for t in &macs {
            rep.eval();
            match accepted(&enc, t.ty, nk, &plain, &nval) {
                Ok(false) => rep.sym("rejected-wrong-key"),
                Ok(true) => rep.violate(
                    format!("accepted-under-wrong-key/{}", kind_name(t.ty)),
                    format!("encoded under {} accepted under {}", k.spec.show(), ns.show()),
                    replay(),
                ),
                Err(pn) => rep.violate(format!("validation-panics/{}", crate::util::panic_site(&pn)), pn, replay()),
            }
        }
    }
    if !walk_faults {
        rep.nontrivial_by_construction();
        return;
    }
    // (iii-c) wrong MAC values that a careless comparison accepts (errors cancelling under a folding comparison, permuted
    // words, right only in a prefix / suffix): messages whose byte hash selects them (one in 8) - the patterns do not
    // depend on the message
    if crate::util::hash64(&enc) % 8 == 0 {
        for t in &macs {
            for (what, wrong) in crate::faults::mac_patterns(&t.value) {
                let mut m = enc.clone();
                m[t.off + 4..t.off + 4 + wrong.len()].copy_from_slice(&wrong);
                rep.eval();
                match accepted(&m, t.ty, k.subject, &plain, &validating) {
                    Ok(false) => {}
                    Ok(true) => rep.violate(
                        format!("tampered-message-accepted/{}/mac-value/{}", kind_name(t.ty), what),
                        format!("MAC replaced by {}", hex(&wrong)),
                        json!({"kind": "bytes", "original": hex(&enc), "tampered": hex(&m), "key": k.spec.show()}),
                    ),
                    Err(pn) => rep.violate(format!("validation-panics/{}", crate::util::panic_site(&pn)), pn, replay()),
                }
            }
        }
        rep.sym("mac-patterns");
    }
    // (iii-d) the same decoder object sees the same buffers again and again (retransmissions): the untampered message, then a
    // tampered copy four times in a row, then both alternating - every presentation of the tampered copy is refused, every
    // presentation of the untampered one accepted (messages selected by a hash of their bytes, one in 4)
    if crate::util::hash64(&enc) % 4 == 1 {
        for t in &macs {
            for pos in [20usize.min(t.off), (20 + t.off) / 2, t.off + 4 + t.value.len() - 1] {
                if pos == 2 || pos == 3 {
                    continue;
                }
                let mut m = enc.clone();
                m[pos] ^= 0x04;
                let seq: [bool; 9] = [false, true, true, true, true, false, true, false, true]; // true = tampered
                for (n, tampered) in seq.iter().enumerate() {
                    rep.eval();
                    let bytes = if *tampered { &m } else { &enc };
                    match (accepted_each(bytes, t.ty, k.subject, &plain, &validating), *tampered) {
                        (Ok((false, false)), true) | (Ok((true, true)), false) => {}
                        (Ok(_), true) => {
                            rep.violate(
                                format!("tampered-message-accepted/{}/presented-again-to-the-same-decoder", kind_name(t.ty)),
                                format!("presentation {} of a copy with bit 2 of byte {} flipped", n + 1, pos),
                                json!({"kind": "bytes", "original": hex(&enc), "tampered": hex(&m), "key": k.spec.show(), "sequence": "original, tampered x4, original, tampered, original, tampered - all on one validating decoder object"}),
                            );
                            break;
                        }
                        (Ok(_), false) => {
                            rep.violate(format!("untampered-message-rejected/{}/presented-again-to-the-same-decoder", kind_name(t.ty)), format!("presentation {}", n + 1), replay());
                            break;
                        }
                        (Err(pn), _) => {
                            rep.violate(format!("validation-panics/{}", crate::util::panic_site(&pn)), pn, replay());
                            break;
                        }
                    }
                }
            }
        }
        rep.sym("re-presentations");
    }
    // (iii-b) every single-bit fault in the protected prefix (except header bytes 2-3), in the attribute's own
    // header and in the MAC
    let mut m = enc.clone();
    for t in &macs {
        let end = t.off + 4 + t.value.len();
        for i in 0..end {
            if i == 2 || i == 3 {
                continue;
            }
            for b in 0..8 {
                m[i] ^= 1 << b;
                rep.eval();
                match accepted(&m, t.ty, k.subject, &plain, &validating) {
                    Ok(false) => {}
                    Ok(true) => {
                        let region = if i < 20 { "header" } else if i < t.off { "protected-attributes" } else if i < t.off + 4 { "integrity-attribute-header" } else { "mac-value" };
                        rep.violate(
                            format!("tampered-message-accepted/{}/{}", kind_name(t.ty), region),
                            format!("bit {} of byte {} flipped", b, i),
                            json!({"kind": "bytes", "original": hex(&enc), "tampered": hex(&m), "key": k.spec.show()}),
                        );
                    }
                    Err(pn) => rep.violate(format!("validation-panics/{}", crate::util::panic_site(&pn)), pn, replay()),
                }
                m[i] ^= 1 << b;
            }
        }
        rep.sym("fault-walks");
    }
    rep.nontrivial_by_construction();
}

/// Messages the library's encoder cannot produce (unknown attributes), bytes from the reference encoder: every integrity attribute
/// is accepted by both routes untouched and refused after every single-bit fault in its protected prefix, header and value.
fn check_wire_unknown(lm: &LMsg, k: &Keyed, rep: &mut Report) {
    rep.eval();
    let enc = ref_encode(lm, Some(k.raw));
    let replay = || json!({"kind": "wire-message", "msg": cu::show_msg(lm), "bytes": hex(&enc), "key": k.spec.show()});
    let plain = cu::decoder(Opts::default_ctx(), None);
    let o = Opts { ctx: true, key: true, validation: true, unknown_data: false, not_ignore: false };
    let validating = cu::decoder(o, Some(k.subject));
    let p = ref_parse(&enc).expect("reference parses its own output");
    let macs: Vec<_> = p.tlvs.iter().filter(|t| t.ty == T_MI || t.ty == T_SHA).cloned().collect();
    let shape: Vec<&str> = lm.attrs.iter().filter(|a| matches!(a, L::Mi | L::Sha | L::Fp | L::Unknown(..))).map(|a| a.kind()).collect();
    for t in &macs {
        match accepted_each(&enc, t.ty, k.subject, &plain, &validating) {
            Ok((true, true)) => rep.sym("accepted-untampered"),
            Ok((d, v)) => {
                let by = if !d && !v { "" } else if !d { "/by-the-validating-decoder" } else { "/by-get_input_text-and-validate" };
                rep.violate(format!("untampered-message-rejected{}/{}/with-unknown-attribute/{}", by, kind_name(t.ty), shape.join("+")), "", replay());
                return;
            }
            Err(pn) => {
                rep.violate(format!("validation-panics/{}", crate::util::panic_site(&pn)), pn, replay());
                return;
            }
        }
    }
    let mut m = enc.clone();
    for t in &macs {
        let end = t.off + 4 + t.value.len();
        for i in 0..end {
            if i == 2 || i == 3 {
                continue;
            }
            for b in 0..8 {
                m[i] ^= 1 << b;
                rep.eval();
                match accepted(&m, t.ty, k.subject, &plain, &validating) {
                    Ok(false) => {}
                    Ok(true) => rep.violate(
                        format!("tampered-message-accepted/{}/with-unknown-attribute", kind_name(t.ty)),
                        format!("bit {} of byte {} flipped", b, i),
                        json!({"kind": "bytes", "original": hex(&enc), "tampered": hex(&m), "key": k.spec.show()}),
                    ),
                    Err(pn) => rep.violate(format!("validation-panics/{}", crate::util::panic_site(&pn)), pn, replay()),
                }
                m[i] ^= 1 << b;
            }
        }
    }
    rep.nontrivial_by_construction();
}

/// Keys come and go: a message is protected under one key object, message and key are dropped, and straight away another key
/// of the same length (another password, another user) is created on the same thread - where the allocator may well hand out
/// the very memory the first key occupied. Under the second key the first message must be refused by both routes, and a
/// message encoded under the second key must carry the RFC HMAC of the second key.
fn keys_come_and_go(rep: &mut Report) {
    let pairs: Vec<(KeySpec, KeySpec)> = vec![
        (KeySpec::Short("session-secret-a"), KeySpec::Short("session-secret-b")),
        (KeySpec::Short("k1"), KeySpec::Short("k2")),
        (KeySpec::Short("0123456789abcdef0123456789abcdef"), KeySpec::Short("0123456789abcdef0123456789abcdeg")),
        (
            KeySpec::Long { user: "user", realm: "example.org", pass: "TheMatrIX", sha256: false },
            KeySpec::Long { user: "user", realm: "example.org", pass: "TheMatrIx", sha256: false },
        ),
        (
            KeySpec::Long { user: "user", realm: "example.org", pass: "TheMatrIX", sha256: true },
            KeySpec::Long { user: "usex", realm: "example.org", pass: "TheMatrIX", sha256: true },
        ),
    ];
    let tails: Vec<Vec<L>> = vec![vec![L::Sha], vec![L::Mi], vec![L::Mi, L::Sha], vec![L::Sha, L::Fp], vec![L::Mi, L::Sha, L::Fp]];
    for round in 0..3u8 {
        for (a, b) in &pairs {
            for (first, second) in [(a, b), (b, a)] {
                for tail in &tails {
                    rep.eval();
                    let mut attrs = vec![L::Software("x".into())];
                    attrs.extend(tail.clone());
                    let lm = menu::lmsg(1, 2, [round.wrapping_mul(37).wrapping_add(5); 12], attrs);
                    let replay = || json!({"kind": "key-sequence", "msg": cu::show_msg(&lm), "first_key": first.show(), "second_key": second.show(), "note": "the first key object is dropped before the second one is created, on the same thread"});
                    // protect under the first key; the message and the key go away
                    let bytes = {
                        let Ok(k1) = first.subject() else { continue };
                        let Ok(msg) = cu::build_msg(&lm, Some(&k1)) else { continue };
                        let reference = ref_encode(&lm, Some(&first.ref_bytes()));
                        let Ok(Ok((n, b))) = cu::encode_into(&msg, reference.len() + 16, 0) else { continue };
                        drop(msg);
                        drop(k1);
                        b[..n].to_vec()
                    };
                    // ... and the second key appears at once
                    let Ok(k2) = second.subject() else { continue };
                    let plain = cu::decoder(Opts::default_ctx(), None);
                    let validating = cu::decoder(Opts { ctx: true, key: true, validation: true, unknown_data: false, not_ignore: false }, Some(&k2));
                    let p = ref_parse(&bytes).expect("parses");
                    for t in p.tlvs.iter().filter(|t| t.ty == T_MI || t.ty == T_SHA) {
                        match accepted_each(&bytes, t.ty, &k2, &plain, &validating) {
                            Ok((false, false)) => rep.sym("rejected-under-a-later-key"),
                            Ok(_) => rep.violate(format!("accepted-under-wrong-key/{}/after-the-right-key-was-dropped", kind_name(t.ty)), format!("encoded under {} accepted under {}", first.show(), second.show()), replay()),
                            Err(pn) => rep.violate(format!("validation-panics/{}", crate::util::panic_site(&pn)), pn, replay()),
                        }
                    }
                    // a message protected under the second key carries the second key's MAC
                    if let Ok(msg2) = cu::build_msg(&lm, Some(&k2)) {
                        let want = ref_encode(&lm, Some(&second.ref_bytes()));
                        match cu::encode_into(&msg2, want.len() + 16, 0) {
                            Ok(Ok((n, b))) if b[..n] == want[..] => rep.sym("later-key-macs-are-its-own"),
                            other => rep.violate("mac-on-wire-is-not-the-rfc-hmac/after-another-key-was-dropped", format!("{:?}", other.map(|r| r.map(|x| x.0))), replay()),
                        }
                    }
                }
            }
        }
    }
    rep.nontrivial_by_construction();
}

pub fn run(ctx: &RunCtx) -> i32 {
    let thorough = ctx.thorough();
    let menu_v: Vec<L> = menu::body_menu(thorough).into_iter().filter(|a| value_bytes(a, &[0; 12]).len() <= 64).collect();
    let big: Vec<L> = menu::body_menu(true).into_iter().filter(|a| value_bytes(a, &[0; 12]).len() > 64).collect();
    let tails: Vec<Vec<L>> = vec![
        vec![L::Mi],
        vec![L::Sha],
        vec![L::Mi, L::Sha],
        vec![L::Mi, L::Fp],
        vec![L::Sha, L::Fp],
        vec![L::Mi, L::Sha, L::Fp],
    ];
    let keys = menu::key_menu(true);
    let shared = Shared::new();
    {
        let mut r = Report::new();
        keys_come_and_go(&mut r);
        shared.merge(r);
    }
    // key derivation against R-strings + R-crypto
    {
        let mut r = Report::new();
        for ks in &keys {
            r.eval();
            match ks.subject() {
                Ok(k) if k.as_bytes() == ks.ref_bytes().as_slice() => r.sym("key-derivation"),
                Ok(k) => r.violate(
                    format!("key-derivation-differs/{}", match ks { KeySpec::Short(_) => "short-term", KeySpec::Long { sha256: true, .. } => "long-term-sha256", _ => "long-term-md5" }),
                    format!("{}: library {} reference {}", ks.show(), hex(k.as_bytes()), hex(&ks.ref_bytes())),
                    json!({"key": ks.show()}),
                ),
                Err(e) => r.violate("key-constructor-refuses", e, json!({"key": ks.show()})),
            }
        }
        shared.merge(r);
    }
    let work: Vec<(usize, usize)> = (0..keys.len()).flat_map(|k| (0..=menu_v.len()).map(move |i| (k, i))).collect();
    work.par_iter().for_each(|(ki, i)| {
        let ks = &keys[*ki];
        let Ok(subj) = ks.subject() else { return };
        let raw = ks.ref_bytes();
        let kk = Keyed { spec: ks, subject: &subj, raw: &raw };
        let near: Vec<(KeySpec, HMACKey)> = menu::near_keys(ks).into_iter().filter_map(|n| n.subject().ok().map(|s| (n, s))).collect();
        let mut r = Report::new();
        // i == menu_v.len(): the empty body
        let firsts: Vec<L> = if *i == menu_v.len() { vec![] } else { vec![menu_v[*i].clone()] };
        // quick tier: pairs only under the first three keys
        let seconds: Vec<Option<&L>> = if firsts.is_empty() || *ki >= 3 { vec![None] } else { std::iter::once(None).chain(menu_v.iter().map(Some)).collect() };
        for (j, second) in seconds.iter().enumerate() {
            for (ti, tail) in tails.iter().enumerate() {
                let mut attrs = firsts.clone();
                if let Some(s) = second {
                    attrs.push((*s).clone());
                }
                attrs.extend(tail.clone());
                let lm = menu::lmsg(1, if *i % 2 == 0 { 0 } else { 2 }, menu::RFC5769_TID, attrs);
                // quick tier: pairs walk faults under one tail per pair (rotating), singles under all tails
                let walk = thorough || second.is_none() || (j + *i) % tails.len() == ti;
                check_msg(&lm, &kk, &near, walk, &mut r);
                if *ki == 1 && *i == 4 && j == 2 && ti == 5 {
                    r.sample(json!({"msg": cu::show_msg(&lm), "key": ks.show(), "faults": "every bit of the protected prefix, attribute header and MAC"}));
                }
            }
        }
        shared.merge(r);
    });
    // long values (508/509-byte strings, 1000-byte blobs): singles, all tails, first key
    {
        let ks = &keys[0];
        let subj = ks.subject().unwrap();
        let raw = ks.ref_bytes();
        let near: Vec<(KeySpec, HMACKey)> = menu::near_keys(ks).into_iter().filter_map(|n| n.subject().ok().map(|s| (n, s))).collect();
        big.par_iter().for_each(|a| {
            let kk = Keyed { spec: ks, subject: &subj, raw: &raw };
            let mut r = Report::new();
            for tail in &tails {
                let mut attrs = vec![a.clone()];
                attrs.extend(tail.clone());
                check_msg(&menu::lmsg(1, 2, [0x33; 12], attrs), &kk, &near, thorough || tail.len() == 3, &mut r);
            }
            r.sym("long-values");
            shared.merge(r);
        });
    }
    // every protected-prefix length: one DATA blob of 0..=300 bytes (all residues of the 64-byte hash block, both
    // padding thresholds) x 3 tails, fault walks for every length (thorough) / lengths <= 140 (quick)
    {
        let ks = &keys[0];
        let subj = ks.subject().unwrap();
        let raw = ks.ref_bytes();
        let near: Vec<(KeySpec, HMACKey)> = menu::near_keys(ks).into_iter().filter_map(|n| n.subject().ok().map(|s| (n, s))).collect();
        (0..=300usize).into_par_iter().for_each(|n| {
            let kk = Keyed { spec: ks, subject: &subj, raw: &raw };
            let mut r = Report::new();
            for tail in [vec![L::Mi], vec![L::Sha], vec![L::Mi, L::Sha, L::Fp]] {
                let mut attrs = vec![L::Data((0..n).map(|x| (x * 11 + 3) as u8).collect())];
                attrs.extend(tail);
                check_msg(&menu::lmsg(1, 1, [0x44; 12], attrs), &kk, &near, thorough || n <= 140, &mut r);
            }
            r.sym("prefix-length-sweep");
            shared.merge(r);
        });
    }
    // deep messages (menu::deep_msgs: offsets around 256..4096, long runs, repeats, rotations, quads) x 2 tails under a
    // short-term and a long-term key, no fault walk
    {
        let deep = menu::deep_msgs(thorough);
        for ks in [&keys[0], keys.iter().find(|k| matches!(k, KeySpec::Long { sha256: true, .. })).unwrap_or(&keys[0])] {
            let subj = ks.subject().unwrap();
            let raw = ks.ref_bytes();
            let near: Vec<(KeySpec, HMACKey)> = menu::near_keys(ks).into_iter().filter_map(|n| n.subject().ok().map(|s| (n, s))).take(3).collect();
            deep.par_chunks(32).for_each(|ch| {
                let kk = Keyed { spec: ks, subject: &subj, raw: &raw };
                let mut r = Report::new();
                for lm in ch {
                    for tail in [vec![L::Sha], vec![L::Mi, L::Sha, L::Fp]] {
                        let mut m = lm.clone();
                        m.attrs.extend(tail);
                        check_msg(&m, &kk, &near, false, &mut r);
                    }
                }
                r.sym("deep-messages");
                shared.merge(r);
            });
        }
    }
    // offset family: the integrity attribute behind a filler at every body offset of menu::offset_points up to the
    // 65,532-byte maximum, no fault walk
    {
        let ks = &keys[0];
        let subj = ks.subject().unwrap();
        let raw = ks.ref_bytes();
        let near: Vec<(KeySpec, HMACKey)> = menu::near_keys(ks).into_iter().filter_map(|n| n.subject().ok().map(|s| (n, s))).take(2).collect();
        let xs: Vec<Vec<L>> = vec![vec![]];
        let tails = vec![vec![L::Mi], vec![L::Sha], vec![L::Mi, L::Sha, L::Fp]];
        menu::offset_msgs(thorough, &xs, &tails, [0x75; 12]).par_chunks(8).for_each(|ch| {
            let kk = Keyed { spec: ks, subject: &subj, raw: &raw };
            let mut r = Report::new();
            for lm in ch {
                check_msg(lm, &kk, &near, false, &mut r);
            }
            r.sym("offset-family");
            shared.merge(r);
        });
    }
    // decoy values: a DATA blob (last ordinary attribute) whose bytes imitate integrity / fingerprint attribute headers at
    // every word of its last 48 bytes (singles and all pairs) x 6 tails, no fault walk
    {
        let ks = &keys[0];
        let subj = ks.subject().unwrap();
        let raw = ks.ref_bytes();
        let near: Vec<(KeySpec, HMACKey)> = menu::near_keys(ks).into_iter().filter_map(|n| n.subject().ok().map(|s| (n, s))).take(1).collect();
        menu::decoy_blobs().par_chunks(16).for_each(|ch| {
            let kk = Keyed { spec: ks, subject: &subj, raw: &raw };
            let mut r = Report::new();
            for b in ch {
                for tail in &tails {
                    let mut attrs = vec![L::Data(b.clone())];
                    attrs.extend(tail.clone());
                    check_msg(&menu::lmsg(1, 3, [0x46; 12], attrs), &kk, &near, false, &mut r);
                }
            }
            r.sym("decoy-values");
            shared.merge(r);
        });
    }
    // unknown attributes on the wire (bytes from the reference encoder): one unknown attribute (4 types, values of 0 / 1 / 4 / 7 / 33
    // bytes) at every position of the six tails - in front, between the integrity attributes, before FINGERPRINT - alone and
    // behind a SOFTWARE, under a short-term and a long-term key; full single-bit walk
    {
        let mut msgs: Vec<LMsg> = Vec::new();
        for t in &tails {
            for pos in 0..=t.len() {
                for ty in [0x7F31u16, 0xFF31, 0x0033, 0xC003] {
                    for len in [0usize, 1, 4, 7, 33] {
                        for lead in [false, true] {
                            let mut attrs: Vec<L> = if lead { vec![L::Software("ab".into())] } else { vec![] };
                            let mut tt = t.clone();
                            tt.insert(pos, L::Unknown(ty, Some((0..len).map(|x| (x * 7 + 3) as u8).collect())));
                            attrs.extend(tt);
                            msgs.push(menu::lmsg(1, 1, [0x53; 12], attrs));
                        }
                    }
                }
            }
        }
        for ks in [&keys[0], keys.iter().find(|k| matches!(k, KeySpec::Long { sha256: true, .. })).unwrap_or(&keys[0])] {
            let subj = ks.subject().unwrap();
            let raw = ks.ref_bytes();
            msgs.par_chunks(16).for_each(|ch| {
                let kk = Keyed { spec: ks, subject: &subj, raw: &raw };
                let mut r = Report::new();
                for lm in ch {
                    check_wire_unknown(lm, &kk, &mut r);
                }
                r.sym("unknown-attributes-on-the-wire");
                shared.merge(r);
            });
        }
    }
    let mut rep = shared.into_inner();
    rep.outcome("accepted-iff-untampered-under-right-key");
    rep.outcome(format!("violations:{}", rep.violations.len()));
    crate::util::finish(
        ctx,
        rep,
        Finish {
            level: "fault_enumeration",
            rule: format!("messages with 0..=2 body attributes over the {}-entry menu (values <=64 bytes; long values as singles) x 6 legal tails containing MI and/or SHA256 x {} keys (short-term incl. non-ASCII, long-term MD5 and SHA-256); for each: wire bytes == reference (independent HMAC over the RFC input under the independently derived key), every integrity attribute accepted under the right key whatever tail follows, rejected under every key differing in one character of user / realm / password (or algorithm), and rejected after every single-bit fault in the protected prefix (except header bytes 2-3), the attribute's own header and the MAC (pairs only under the first 3 keys; quick tier: pairs walk faults under one rotating tail). Plus one DATA blob of every length 0..=300 x 3 tails (fault walks for every length in the thorough tier, <=140 in the quick tier) and the deep messages of C01 (offsets around 256..4096 / 32768, long runs, repeats, rotations, quads) x 2 tails under a short-term and a long-term SHA-256 key, without fault walks; the offset family (MI / SHA256 / MI+SHA256+FINGERPRINT behind a filler at every 4-aligned body offset 0..=4200 (thorough 16,400), around multiples of 4096 (1024), every offset 65,300 up to the 65,532-byte maximum). For one walked message in 8 the MAC is also replaced by every value of a pattern family that careless comparisons accept (the same mask on two bytes a multiple of four apart x 3 masks, +1/-1 on neighbouring bytes, swapped / rotated / reversed words, inverted, right only in a prefix or suffix, all zero). Decoy values: a DATA blob whose last 48 bytes imitate the headers of MESSAGE-INTEGRITY / MESSAGE-INTEGRITY-SHA256 / FINGERPRINT at every word, singly and in every pair, x 6 tails. For one message in 16 the untampered and a tampered copy are also decoded by every construction route of the four validating decoder configurations (builder calls in every order, a repeated call, clones of decoder and context) and must get the canonical decoder's verdict. Every message is also re-issued: clones of the attributes of the encoded message in a message with another transaction id must encode to that message's reference bytes. Acceptance = validating decoder returns the attribute OR get_input_text+validate says true. Non-trivial = message that passed all of these; key objects that come and go (a message protected under one key, message and key dropped, another key of the same length created at once on the same thread - five key pairs, both orders, five tails, three rounds): the first message is refused under the second key by both routes and a message encoded under the second key carries its RFC HMAC; retransmissions: one validating decoder object is shown the untampered message and a tampered copy nine times in a fixed order (tampered four times in a row, then alternating), every presentation judged on its own", menu_v.len(), keys.len()),
            assumptions: vec!["R-strings table for the non-ASCII passwords".into(), "family unknown-attributes-on-the-wire: bytes from the reference encoder (the library cannot encode unknown attributes); one unknown attribute of 4 types x 5 value lengths at every position of the six tails, alone and behind a SOFTWARE, short-term and long-term SHA-256 key, full single-bit walk per integrity attribute".into()],
            required_symbols: vec!["unknown-attributes-on-the-wire", "key-derivation", "accepted-untampered", "rejected-wrong-key", "fault-walks", "long-values", "prefix-length-sweep", "deep-messages", "offset-family", "decoder-construction-routes", "decoy-values", "mac-patterns", "reissued-with-cloned-attributes", "rejected-under-a-later-key", "later-key-macs-are-its-own", "re-presentations"],
            min_outcomes: 2,
            exhaustive: true,
            bounds: json!({"menu": menu_v.len(), "keys": keys.len(), "tails": 6}),
        },
    )
}
