//! R-codec: independent STUN writer and TLV reader written from RFC 8489 / 8445 / 8656 / 5780 / 8016,
//! working on the harness-side `L` (logical attribute) value, plus conversions between `L` and the
//! subject's `StunAttribute` through public constructors / accessors only.

use super::crypto;
use std::net::{IpAddr, Ipv4Addr, Ipv6Addr, SocketAddr};
use stun_rs::attributes::stun as s;
use stun_rs::attributes::{discovery as d, ice as i, mobility as m, turn as t};
use stun_rs::{AddressFamily, Algorithm, AlgorithmId, HMACKey, StunAttribute};

pub const COOKIE: [u8; 4] = [0x21, 0x12, 0xA4, 0x42];

#[derive(Clone, Debug, PartialEq, Eq, Hash, PartialOrd, Ord, serde::Serialize, serde::Deserialize)]
pub enum Addr {
    V4([u8; 4], u16),
    V6([u8; 16], u16),
}

impl Addr {
    pub fn sock(&self) -> SocketAddr {
        match self {
            Addr::V4(a, p) => SocketAddr::new(IpAddr::V4(Ipv4Addr::from(*a)), *p),
            Addr::V6(a, p) => SocketAddr::new(IpAddr::V6(Ipv6Addr::from(*a)), *p),
        }
    }
    pub fn from_sock(sa: &SocketAddr) -> Addr {
        match sa.ip() {
            IpAddr::V4(a) => Addr::V4(a.octets(), sa.port()),
            IpAddr::V6(a) => Addr::V6(a.octets(), sa.port()),
        }
    }
}

/// Logical attribute value (plain data).
#[derive(Clone, Debug, PartialEq, Eq, Hash, PartialOrd, Ord, serde::Serialize, serde::Deserialize)]
pub enum L {
    MappedAddress(Addr),
    AlternateServer(Addr),
    XorMappedAddress(Addr),
    XorPeerAddress(Addr),
    XorRelayedAddress(Addr),
    OtherAddress(Addr),
    ResponseOrigin(Addr),
    ErrorCode(u16, String),
    Nonce(String),
    Realm(String),
    UserName(String),
    Software(String),
    Padding(String),
    PasswordAlgorithm(u16, Vec<u8>),
    PasswordAlgorithms(Vec<(u16, Vec<u8>)>),
    UnknownAttributes(Vec<u16>),
    UserHash([u8; 32]),
    IceControlled(u64),
    IceControlling(u64),
    Priority(u32),
    UseCandidate,
    ChannelNumber(u16),
    LifeTime(u32),
    Data(Vec<u8>),
    RequestedAddressFamily(u8),
    AdditionalAddressFamily(u8),
    EvenPort(bool),
    DontFragment,
    RequestedTransport(u8),
    ReservationToken([u8; 8]),
    AddressErrorCode(u8, u16, String),
    Icmp(u8, u16, [u8; 4]),
    MobilityTicket(Vec<u8>),
    ChangeRequest(bool, bool), // (change ip, change port)
    ResponsePort(u16),
    /// integrity / fingerprint: only the kind is logical; the value is checked against R-crypto separately
    Mi,
    Sha,
    Fp,
    Unknown(u16, Option<Vec<u8>>),
}

pub const T_MAPPED_ADDRESS: u16 = 0x0001;
pub const T_CHANGE_REQUEST: u16 = 0x0003;
pub const T_USERNAME: u16 = 0x0006;
pub const T_MI: u16 = 0x0008;
pub const T_ERROR_CODE: u16 = 0x0009;
pub const T_UNKNOWN_ATTRIBUTES: u16 = 0x000A;
pub const T_CHANNEL_NUMBER: u16 = 0x000C;
pub const T_LIFETIME: u16 = 0x000D;
pub const T_XOR_PEER_ADDRESS: u16 = 0x0012;
pub const T_DATA: u16 = 0x0013;
pub const T_REALM: u16 = 0x0014;
pub const T_NONCE: u16 = 0x0015;
pub const T_XOR_RELAYED_ADDRESS: u16 = 0x0016;
pub const T_REQUESTED_ADDRESS_FAMILY: u16 = 0x0017;
pub const T_EVEN_PORT: u16 = 0x0018;
pub const T_REQUESTED_TRANSPORT: u16 = 0x0019;
pub const T_DONT_FRAGMENT: u16 = 0x001A;
pub const T_SHA: u16 = 0x001C;
pub const T_PASSWORD_ALGORITHM: u16 = 0x001D;
pub const T_USERHASH: u16 = 0x001E;
pub const T_XOR_MAPPED_ADDRESS: u16 = 0x0020;
pub const T_RESERVATION_TOKEN: u16 = 0x0022;
pub const T_PRIORITY: u16 = 0x0024;
pub const T_USE_CANDIDATE: u16 = 0x0025;
pub const T_PADDING: u16 = 0x0026;
pub const T_RESPONSE_PORT: u16 = 0x0027;
pub const T_ADDITIONAL_ADDRESS_FAMILY: u16 = 0x8000;
pub const T_ADDRESS_ERROR_CODE: u16 = 0x8001;
pub const T_PASSWORD_ALGORITHMS: u16 = 0x8002;
pub const T_ICMP: u16 = 0x8004;
pub const T_SOFTWARE: u16 = 0x8022;
pub const T_ALTERNATE_SERVER: u16 = 0x8023;
pub const T_FP: u16 = 0x8028;
pub const T_ICE_CONTROLLED: u16 = 0x8029;
pub const T_ICE_CONTROLLING: u16 = 0x802A;
pub const T_RESPONSE_ORIGIN: u16 = 0x802B;
pub const T_OTHER_ADDRESS: u16 = 0x802C;
pub const T_MOBILITY_TICKET: u16 = 0x8030;

impl L {
    pub fn type_code(&self) -> u16 {
        match self {
            L::MappedAddress(_) => T_MAPPED_ADDRESS,
            L::AlternateServer(_) => T_ALTERNATE_SERVER,
            L::XorMappedAddress(_) => T_XOR_MAPPED_ADDRESS,
            L::XorPeerAddress(_) => T_XOR_PEER_ADDRESS,
            L::XorRelayedAddress(_) => T_XOR_RELAYED_ADDRESS,
            L::OtherAddress(_) => T_OTHER_ADDRESS,
            L::ResponseOrigin(_) => T_RESPONSE_ORIGIN,
            L::ErrorCode(..) => T_ERROR_CODE,
            L::Nonce(_) => T_NONCE,
            L::Realm(_) => T_REALM,
            L::UserName(_) => T_USERNAME,
            L::Software(_) => T_SOFTWARE,
            L::Padding(_) => T_PADDING,
            L::PasswordAlgorithm(..) => T_PASSWORD_ALGORITHM,
            L::PasswordAlgorithms(_) => T_PASSWORD_ALGORITHMS,
            L::UnknownAttributes(_) => T_UNKNOWN_ATTRIBUTES,
            L::UserHash(_) => T_USERHASH,
            L::IceControlled(_) => T_ICE_CONTROLLED,
            L::IceControlling(_) => T_ICE_CONTROLLING,
            L::Priority(_) => T_PRIORITY,
            L::UseCandidate => T_USE_CANDIDATE,
            L::ChannelNumber(_) => T_CHANNEL_NUMBER,
            L::LifeTime(_) => T_LIFETIME,
            L::Data(_) => T_DATA,
            L::RequestedAddressFamily(_) => T_REQUESTED_ADDRESS_FAMILY,
            L::AdditionalAddressFamily(_) => T_ADDITIONAL_ADDRESS_FAMILY,
            L::EvenPort(_) => T_EVEN_PORT,
            L::DontFragment => T_DONT_FRAGMENT,
            L::RequestedTransport(_) => T_REQUESTED_TRANSPORT,
            L::ReservationToken(_) => T_RESERVATION_TOKEN,
            L::AddressErrorCode(..) => T_ADDRESS_ERROR_CODE,
            L::Icmp(..) => T_ICMP,
            L::MobilityTicket(_) => T_MOBILITY_TICKET,
            L::ChangeRequest(..) => T_CHANGE_REQUEST,
            L::ResponsePort(_) => T_RESPONSE_PORT,
            L::Mi => T_MI,
            L::Sha => T_SHA,
            L::Fp => T_FP,
            L::Unknown(t, _) => *t,
        }
    }
    pub fn kind(&self) -> &'static str {
        match self {
            L::MappedAddress(_) => "MappedAddress",
            L::AlternateServer(_) => "AlternateServer",
            L::XorMappedAddress(_) => "XorMappedAddress",
            L::XorPeerAddress(_) => "XorPeerAddress",
            L::XorRelayedAddress(_) => "XorRelayedAddress",
            L::OtherAddress(_) => "OtherAddress",
            L::ResponseOrigin(_) => "ResponseOrigin",
            L::ErrorCode(..) => "ErrorCode",
            L::Nonce(_) => "Nonce",
            L::Realm(_) => "Realm",
            L::UserName(_) => "UserName",
            L::Software(_) => "Software",
            L::Padding(_) => "Padding",
            L::PasswordAlgorithm(..) => "PasswordAlgorithm",
            L::PasswordAlgorithms(_) => "PasswordAlgorithms",
            L::UnknownAttributes(_) => "UnknownAttributes",
            L::UserHash(_) => "UserHash",
            L::IceControlled(_) => "IceControlled",
            L::IceControlling(_) => "IceControlling",
            L::Priority(_) => "Priority",
            L::UseCandidate => "UseCandidate",
            L::ChannelNumber(_) => "ChannelNumber",
            L::LifeTime(_) => "LifeTime",
            L::Data(_) => "Data",
            L::RequestedAddressFamily(_) => "RequestedAddressFamily",
            L::AdditionalAddressFamily(_) => "AdditionalAddressFamily",
            L::EvenPort(_) => "EvenPort",
            L::DontFragment => "DontFragment",
            L::RequestedTransport(_) => "RequestedTransport",
            L::ReservationToken(_) => "ReservationToken",
            L::AddressErrorCode(..) => "AddressErrorCode",
            L::Icmp(..) => "Icmp",
            L::MobilityTicket(_) => "MobilityTicket",
            L::ChangeRequest(..) => "ChangeRequest",
            L::ResponsePort(_) => "ResponsePort",
            L::Mi => "MessageIntegrity",
            L::Sha => "MessageIntegritySha256",
            L::Fp => "Fingerprint",
            L::Unknown(..) => "Unknown",
        }
    }
    /// short printable form for samples
    pub fn show(&self) -> String {
        let s = format!("{:?}", self);
        if s.len() > 90 {
            format!("{}…(len {})", &s.chars().take(70).collect::<String>(), s.len())
        } else {
            s
        }
    }
}

/// The (name, realm) pairs a USERHASH in the menus can be built from.
pub const USERHASH_SOURCES: &[(&str, &str)] = &[
    ("user", "realm"),
    ("\u{30de}\u{30c8}\u{30ea}\u{30c3}\u{30af}\u{30b9}", "example.org"),
    ("a", ""),
    ("user", "example.org"),
    ("user", "example.com"),
];

pub fn userhash_ref(name: &str, realm: &str) -> [u8; 32] {
    crypto::sha256(format!("{}:{}", name, realm).as_bytes())
}

fn fam(f: u8) -> AddressFamily {
    if f == 1 {
        AddressFamily::IPv4
    } else {
        AddressFamily::IPv6
    }
}
fn fam_u8(f: AddressFamily) -> u8 {
    match f {
        AddressFamily::IPv4 => 1,
        AddressFamily::IPv6 => 2,
    }
}

/// Build the subject's attribute for a logical value through its public constructors.
/// `key` is used for Mi / Sha. Err(text) when a constructor refuses.
pub fn to_subject(l: &L, key: Option<&HMACKey>) -> Result<StunAttribute, String> {
    let e = |x: stun_rs::StunError| format!("{}", x);
    Ok(match l {
        L::MappedAddress(a) => s::MappedAddress::from(a.sock()).into(),
        L::AlternateServer(a) => {
            let sa = a.sock();
            s::AlternateServer::new(sa.ip(), sa.port()).into()
        }
        L::XorMappedAddress(a) => s::XorMappedAddress::from(a.sock()).into(),
        L::XorPeerAddress(a) => t::XorPeerAddress::from(a.sock()).into(),
        L::XorRelayedAddress(a) => t::XorRelayedAddress::from(a.sock()).into(),
        L::OtherAddress(a) => d::OtherAddress::from(a.sock()).into(),
        L::ResponseOrigin(a) => d::ResponseOrigin::from(a.sock()).into(),
        L::ErrorCode(c, r) => s::ErrorCode::new(stun_rs::ErrorCode::new(*c, r).map_err(e)?).into(),
        L::Nonce(v) => s::Nonce::new(v).map_err(e)?.into(),
        L::Realm(v) => s::Realm::new(v).map_err(e)?.into(),
        L::UserName(v) => s::UserName::new(v).map_err(e)?.into(),
        L::Software(v) => s::Software::new(v.as_str()).map_err(e)?.into(),
        L::Padding(v) => d::Padding::new(v.as_str()).map_err(e)?.into(),
        L::PasswordAlgorithm(a, p) => s::PasswordAlgorithm::new(Algorithm::new(
            AlgorithmId::from(*a),
            if p.is_empty() { None } else { Some(p.as_slice()) },
        ))
        .into(),
        L::PasswordAlgorithms(v) => s::PasswordAlgorithms::from(
            v.iter()
                .map(|(a, p)| {
                    s::PasswordAlgorithm::new(Algorithm::new(
                        AlgorithmId::from(*a),
                        if p.is_empty() { None } else { Some(p.as_slice()) },
                    ))
                })
                .collect::<Vec<_>>(),
        )
        .into(),
        L::UnknownAttributes(v) => s::UnknownAttributes::from(v.as_slice()).into(),
        L::UserHash(h) => {
            let (n, r) = USERHASH_SOURCES
                .iter()
                .find(|(n, r)| &userhash_ref(n, r) == h)
                .ok_or_else(|| "no source for user hash".to_string())?;
            s::UserHash::new(n, r).map_err(e)?.into()
        }
        L::IceControlled(v) => i::IceControlled::new(*v).into(),
        L::IceControlling(v) => i::IceControlling::new(*v).into(),
        L::Priority(v) => i::Priority::new(*v).into(),
        L::UseCandidate => i::UseCandidate::default().into(),
        L::ChannelNumber(v) => t::ChannelNumber::new(*v).into(),
        L::LifeTime(v) => t::LifeTime::new(*v).into(),
        L::Data(v) => t::Data::new(v).into(),
        L::RequestedAddressFamily(f) => t::RequestedAddressFamily::new(fam(*f)).into(),
        L::AdditionalAddressFamily(f) => t::AdditionalAddressFamily::new(fam(*f)).into(),
        L::EvenPort(b) => t::EvenPort::new(*b).into(),
        L::DontFragment => t::DontFragment::default().into(),
        L::RequestedTransport(p) => {
            if *p == 17 {
                t::RequestedTrasport::new(stun_rs::protocols::UDP).into()
            } else if *p == 0 {
                t::RequestedTrasport::new(stun_rs::protocols::ProtocolNumber::default()).into()
            } else {
                return Err("protocol number not constructible".into());
            }
        }
        L::ReservationToken(v) => t::ReservationToken::from(*v).into(),
        L::AddressErrorCode(f, c, r) => {
            t::AddressErrorCode::new(fam(*f), stun_rs::ErrorCode::new(*c, r).map_err(e)?).into()
        }
        L::Icmp(ty, code, data) => t::Icmp::new(
            t::IcmpType::new(*ty).ok_or("icmp type out of range")?,
            t::IcmpCode::new(*code).ok_or("icmp code out of range")?,
            *data,
        )
        .into(),
        L::MobilityTicket(v) => m::MobilityTicket::new(v).into(),
        L::ChangeRequest(ip, port) => {
            let mut f = enumflags2::BitFlags::<d::ChangeRequestFlags>::empty();
            if *ip {
                f |= d::ChangeRequestFlags::ChangeIp;
            }
            if *port {
                f |= d::ChangeRequestFlags::ChangePort;
            }
            d::ChangeRequest::new(if f.is_empty() { None } else { Some(f) }).into()
        }
        L::ResponsePort(v) => d::ResponsePort::new(*v).into(),
        L::Mi => s::MessageIntegrity::new(key.ok_or("key required")?.clone()).into(),
        L::Sha => s::MessageIntegritySha256::new(key.ok_or("key required")?.clone()).into(),
        L::Fp => s::Fingerprint::default().into(),
        L::Unknown(..) => return Err("Unknown cannot be constructed".into()),
    })
}

/// Read the subject's attribute back into a logical value through public accessors only.
pub fn from_subject(a: &StunAttribute) -> L {
    match a {
        StunAttribute::MappedAddress(x) => L::MappedAddress(Addr::from_sock(x.socket_address())),
        StunAttribute::AlternateServer(x) => L::AlternateServer(Addr::from_sock(x.socket_address())),
        StunAttribute::XorMappedAddress(x) => L::XorMappedAddress(Addr::from_sock(x.socket_address())),
        StunAttribute::XorPeerAddress(x) => L::XorPeerAddress(Addr::from_sock(x.socket_address())),
        StunAttribute::XorRelayedAddress(x) => L::XorRelayedAddress(Addr::from_sock(x.socket_address())),
        StunAttribute::OtherAddress(x) => L::OtherAddress(Addr::from_sock(x.socket_address())),
        StunAttribute::ResponseOrigin(x) => L::ResponseOrigin(Addr::from_sock(x.socket_address())),
        StunAttribute::ErrorCode(x) => L::ErrorCode(x.error_code().error_code(), x.error_code().reason().to_string()),
        StunAttribute::Nonce(x) => L::Nonce(x.as_str().to_string()),
        StunAttribute::Realm(x) => L::Realm(x.as_str().to_string()),
        StunAttribute::UserName(x) => L::UserName(x.as_str().to_string()),
        StunAttribute::Software(x) => L::Software(x.as_str().to_string()),
        StunAttribute::Padding(x) => L::Padding(x.as_str().to_string()),
        StunAttribute::PasswordAlgorithm(x) => {
            L::PasswordAlgorithm(u16::from(x.algorithm()), x.parameters().map(|p| p.to_vec()).unwrap_or_default())
        }
        StunAttribute::PasswordAlgorithms(x) => L::PasswordAlgorithms(
            x.iter()
                .map(|p| (u16::from(p.algorithm()), p.parameters().map(|q| q.to_vec()).unwrap_or_default()))
                .collect(),
        ),
        StunAttribute::UnknownAttributes(x) => L::UnknownAttributes(x.attributes().to_vec()),
        StunAttribute::UserHash(x) => {
            let mut h = [0u8; 32];
            h.copy_from_slice(x.hash());
            L::UserHash(h)
        }
        StunAttribute::IceControlled(x) => L::IceControlled(x.as_u64()),
        StunAttribute::IceControlling(x) => L::IceControlling(x.as_u64()),
        StunAttribute::Priority(x) => L::Priority(x.as_u32()),
        StunAttribute::UseCandidate(_) => L::UseCandidate,
        StunAttribute::ChannelNumber(x) => L::ChannelNumber(x.number()),
        StunAttribute::LifeTime(x) => L::LifeTime(x.as_u32()),
        StunAttribute::Data(x) => L::Data(x.as_bytes().to_vec()),
        StunAttribute::RequestedAddressFamily(x) => L::RequestedAddressFamily(fam_u8(x.family())),
        StunAttribute::AdditionalAddressFamily(x) => L::AdditionalAddressFamily(fam_u8(x.family())),
        StunAttribute::EvenPort(x) => L::EvenPort(x.reserve()),
        StunAttribute::DontFragment(_) => L::DontFragment,
        StunAttribute::RequestedTrasport(x) => L::RequestedTransport(x.protocol().as_u8()),
        StunAttribute::ReservationToken(x) => {
            let mut h = [0u8; 8];
            h.copy_from_slice(x.token());
            L::ReservationToken(h)
        }
        StunAttribute::AddressErrorCode(x) => L::AddressErrorCode(
            fam_u8(x.family()),
            x.error_code().error_code(),
            x.error_code().reason().to_string(),
        ),
        StunAttribute::Icmp(x) => {
            let mut h = [0u8; 4];
            h.copy_from_slice(x.error_data());
            L::Icmp(x.icmp_type().get(), x.icmp_code().get(), h)
        }
        StunAttribute::MobilityTicket(x) => L::MobilityTicket(x.value().to_vec()),
        StunAttribute::ChangeRequest(x) => L::ChangeRequest(
            x.flags().contains(d::ChangeRequestFlags::ChangeIp),
            x.flags().contains(d::ChangeRequestFlags::ChangePort),
        ),
        StunAttribute::ResponsePort(x) => L::ResponsePort(x.as_u16()),
        StunAttribute::MessageIntegrity(_) => L::Mi,
        StunAttribute::MessageIntegritySha256(_) => L::Sha,
        StunAttribute::Fingerprint(_) => L::Fp,
        StunAttribute::Unknown(x) => L::Unknown(x.attribute_type().as_u16(), x.attribute_data().map(|v| v.to_vec())),
    }
}

// ---------------------------------------------------------------------------------------------
// Independent writer

pub fn msg_type(method: u16, class: u8) -> u16 {
    let m = method & 0x0FFF;
    let c = (class & 3) as u16;
    ((m & 0x0F80) << 2) | ((m & 0x0070) << 1) | (m & 0x000F) | ((c & 2) << 7) | ((c & 1) << 4)
}

pub fn split_type(t: u16) -> (u16, u8) {
    let t = t & 0x3FFF;
    let c = (((t >> 8) & 1) << 1) | ((t >> 4) & 1);
    let m = ((t & 0x3E00) >> 2) | ((t & 0x00E0) >> 1) | (t & 0x000F);
    (m, c as u8)
}

fn addr_value(a: &Addr, xor: Option<&[u8; 12]>) -> Vec<u8> {
    let mut v = vec![0u8];
    let (famb, mut port, mut ip): (u8, u16, Vec<u8>) = match a {
        Addr::V4(ip, p) => (1, *p, ip.to_vec()),
        Addr::V6(ip, p) => (2, *p, ip.to_vec()),
    };
    if let Some(tid) = xor {
        port ^= 0x2112;
        let mut pad = COOKIE.to_vec();
        pad.extend_from_slice(tid);
        for (k, b) in ip.iter_mut().enumerate() {
            *b ^= pad[k];
        }
    }
    v.push(famb);
    v.extend_from_slice(&port.to_be_bytes());
    v.extend_from_slice(&ip);
    v
}

fn pa_value(alg: u16, params: &[u8]) -> Vec<u8> {
    let mut v = alg.to_be_bytes().to_vec();
    v.extend_from_slice(&(params.len() as u16).to_be_bytes());
    v.extend_from_slice(params);
    v
}

/// R-strings: the value a REALM / NONCE built from the text `s` carries. The quoted form - DQUOTE, qdtext and quoted-pairs,
/// DQUOTE, optionally after leading white space - stands for its content (quoted-pairs stay as written); every other text the
/// menus use stands for itself. Read left to right: a backslash takes the next character with it, the first DQUOTE that is
/// not taken this way closes the quoted form.
pub fn quoted_ref(s: &str) -> String {
    let lws = [' ', '\t', '\r', '\n'];
    let t = s.trim_start_matches(lws);
    if let Some(inner) = t.strip_prefix('"') {
        let mut out = String::new();
        let mut it = inner.chars();
        while let Some(c) = it.next() {
            if c == '\\' {
                out.push(c);
                if let Some(d) = it.next() {
                    out.push(d);
                }
            } else if c == '"' {
                if it.next().is_none() {
                    return out;
                }
                break;
            } else {
                out.push(c);
            }
        }
        return s.to_string();
    }
    // not the quoted form: the text without the white space around it (white space taken by a backslash belongs to the text)
    let mut out = String::new();
    let mut keep = 0; // length of `out` up to the last character that is not trailing white space
    let mut it = t.chars();
    while let Some(c) = it.next() {
        out.push(c);
        if c == '\\' {
            if let Some(d) = it.next() {
                out.push(d);
            }
            keep = out.len();
        } else if !lws.contains(&c) {
            keep = out.len();
        }
    }
    out.truncate(keep);
    out
}

/// Value bytes of a non-verifiable attribute.
pub fn value_bytes(l: &L, tid: &[u8; 12]) -> Vec<u8> {
    match l {
        L::MappedAddress(a) | L::AlternateServer(a) | L::OtherAddress(a) | L::ResponseOrigin(a) => addr_value(a, None),
        L::XorMappedAddress(a) | L::XorPeerAddress(a) | L::XorRelayedAddress(a) => addr_value(a, Some(tid)),
        L::ErrorCode(c, r) => {
            let mut v = vec![0, 0, (c / 100) as u8, (c % 100) as u8];
            v.extend_from_slice(r.as_bytes());
            v
        }
        L::Nonce(x) | L::Realm(x) => quoted_ref(x).into_bytes(),
        L::UserName(x) | L::Software(x) | L::Padding(x) => x.as_bytes().to_vec(),
        L::PasswordAlgorithm(a, p) => pa_value(*a, p),
        L::PasswordAlgorithms(list) => {
            let mut v = vec![];
            for (k, (a, p)) in list.iter().enumerate() {
                v.extend(pa_value(*a, p));
                if k + 1 < list.len() {
                    while v.len() % 4 != 0 {
                        v.push(0);
                    }
                }
            }
            v
        }
        L::UnknownAttributes(list) => list.iter().flat_map(|x| x.to_be_bytes()).collect(),
        L::UserHash(h) => h.to_vec(),
        L::IceControlled(x) | L::IceControlling(x) => x.to_be_bytes().to_vec(),
        L::Priority(x) | L::LifeTime(x) => x.to_be_bytes().to_vec(),
        L::UseCandidate | L::DontFragment => vec![],
        L::ChannelNumber(n) => {
            let mut v = n.to_be_bytes().to_vec();
            v.extend_from_slice(&[0, 0]);
            v
        }
        L::Data(x) | L::MobilityTicket(x) => x.clone(),
        L::RequestedAddressFamily(f) | L::AdditionalAddressFamily(f) => vec![*f, 0, 0, 0],
        L::EvenPort(b) => vec![if *b { 0x80 } else { 0 }],
        L::RequestedTransport(p) => vec![*p, 0, 0, 0],
        L::ReservationToken(x) => x.to_vec(),
        L::AddressErrorCode(f, c, r) => {
            let mut v = vec![*f, 0, (c / 100) as u8, (c % 100) as u8];
            v.extend_from_slice(r.as_bytes());
            v
        }
        L::Icmp(ty, code, data) => {
            let w: u16 = ((*ty as u16) << 9) | (code & 0x01FF);
            let mut v = vec![0, 0];
            v.extend_from_slice(&w.to_be_bytes());
            v.extend_from_slice(data);
            v
        }
        L::ChangeRequest(ip, port) => {
            let w: u32 = (if *ip { 4 } else { 0 }) | (if *port { 2 } else { 0 });
            w.to_be_bytes().to_vec()
        }
        L::ResponsePort(p) => p.to_be_bytes().to_vec(),
        L::Unknown(_, d) => d.clone().unwrap_or_default(),
        L::Mi | L::Sha | L::Fp => unreachable!("verifiable attributes are written by ref_encode"),
    }
}

pub fn push_tlv(out: &mut Vec<u8>, ty: u16, value: &[u8]) {
    out.extend_from_slice(&ty.to_be_bytes());
    out.extend_from_slice(&(value.len() as u16).to_be_bytes());
    out.extend_from_slice(value);
    while out.len() % 4 != 0 {
        out.push(0);
    }
}

fn set_len(out: &mut [u8], len: usize) {
    let l = (len as u16).to_be_bytes();
    out[2] = l[0];
    out[3] = l[1];
}

#[derive(Clone, Debug)]
pub struct LMsg {
    pub method: u16,
    pub class: u8, // 0 request, 1 indication, 2 success, 3 error
    pub tid: [u8; 12],
    pub attrs: Vec<L>,
}

/// How a verifiable attribute is written: with the correct value or a deliberately wrong one.
#[derive(Clone, Copy, Debug, PartialEq, Eq)]
pub enum Mac {
    Good,
    Bad,
    /// the value of the FIRST attribute of the same kind in the message (a verbatim copy; wrong for its own position)
    SameAsFirst,
    /// wrong in a way that defeats folding comparisons: the same mask on two bytes four apart (MI), the whole value
    /// inverted (SHA256: an even number of words)
    Fold,
}

/// value of the first TLV of type `ty` in a message under construction (the header length is not trusted)
fn first_tlv_of(out: &[u8], ty: u16) -> Option<Vec<u8>> {
    let mut p = 20;
    while p + 4 <= out.len() {
        let t = u16::from_be_bytes([out[p], out[p + 1]]);
        let l = u16::from_be_bytes([out[p + 2], out[p + 3]]) as usize;
        if p + 4 + l > out.len() {
            return None;
        }
        if t == ty {
            return Some(out[p + 4..p + 4 + l].to_vec());
        }
        p += 4 + l + (4 - l % 4) % 4;
    }
    None
}

/// Reference encoding. `key` = raw HMAC key bytes used for every Mi / Sha in the message.
pub fn ref_encode(msg: &LMsg, key: Option<&[u8]>) -> Vec<u8> {
    let goods = vec![Mac::Good; msg.attrs.len()];
    ref_encode_with(msg, key, &goods)
}

pub fn ref_encode_with(msg: &LMsg, key: Option<&[u8]>, macs: &[Mac]) -> Vec<u8> {
    let mut out = Vec::with_capacity(64);
    out.extend_from_slice(&msg_type(msg.method, msg.class).to_be_bytes());
    out.extend_from_slice(&[0, 0]);
    out.extend_from_slice(&COOKIE);
    out.extend_from_slice(&msg.tid);
    for (ix, a) in msg.attrs.iter().enumerate() {
        let bad = macs.get(ix).copied().unwrap_or(Mac::Good) == Mac::Bad;
        let fold = macs.get(ix).copied().unwrap_or(Mac::Good) == Mac::Fold;
        let same = macs.get(ix).copied().unwrap_or(Mac::Good) == Mac::SameAsFirst;
        match a {
            L::Mi => {
                let body = out.len() - 20 + 24;
                set_len(&mut out, body);
                let mut mac = crypto::hmac_sha1(key.unwrap_or(b""), &out).to_vec();
                if bad {
                    mac[7] ^= 0x10;
                }
                if fold {
                    mac[0] ^= 0x01;
                    mac[4] ^= 0x01;
                }
                if same {
                    if let Some(v) = first_tlv_of(&out, T_MI) {
                        mac = v;
                    }
                }
                push_tlv(&mut out, T_MI, &mac);
            }
            L::Sha => {
                let body = out.len() - 20 + 36;
                set_len(&mut out, body);
                let mut mac = crypto::hmac_sha256(key.unwrap_or(b""), &out).to_vec();
                if bad {
                    mac[9] ^= 0x04;
                }
                if fold {
                    for b in mac.iter_mut() {
                        *b = !*b;
                    }
                }
                if same {
                    if let Some(v) = first_tlv_of(&out, T_SHA) {
                        mac = v;
                    }
                }
                push_tlv(&mut out, T_SHA, &mac);
            }
            L::Fp => {
                let body = out.len() - 20 + 8;
                set_len(&mut out, body);
                let mut crc = crypto::crc32(&out) ^ 0x5354_554e;
                if bad {
                    crc ^= 0x0000_0100;
                }
                if same {
                    if let Some(v) = first_tlv_of(&out, T_FP) {
                        crc = u32::from_be_bytes([v[0], v[1], v[2], v[3]]);
                    }
                }
                push_tlv(&mut out, T_FP, &crc.to_be_bytes());
            }
            other => {
                let v = value_bytes(other, &msg.tid);
                push_tlv(&mut out, other.type_code(), &v);
            }
        }
        let body = out.len() - 20;
        set_len(&mut out, body);
    }
    out
}

// ---------------------------------------------------------------------------------------------
// Independent TLV reader

#[derive(Clone, Debug, PartialEq, Eq)]
pub struct Tlv {
    pub ty: u16,
    /// offset of the attribute header in the message
    pub off: usize,
    pub value: Vec<u8>,
}

#[derive(Clone, Debug)]
pub struct Parsed {
    pub mtype: u16,
    pub method: u16,
    pub class: u8,
    pub length: usize,
    pub tid: [u8; 12],
    pub tlvs: Vec<Tlv>,
}

/// Strict reader: header sane, cookie right, length multiple of 4 not required by the RFC reader here
/// (the library does not require it either); TLVs must tile the body exactly.
pub fn ref_parse(b: &[u8]) -> Result<Parsed, String> {
    if b.len() < 20 {
        return Err("short header".into());
    }
    if b[0] & 0xC0 != 0 {
        return Err("top bits".into());
    }
    if b[4..8] != COOKIE {
        return Err("cookie".into());
    }
    let mtype = u16::from_be_bytes([b[0], b[1]]);
    let length = u16::from_be_bytes([b[2], b[3]]) as usize;
    if b.len() < 20 + length {
        return Err("body shorter than length".into());
    }
    let mut tid = [0u8; 12];
    tid.copy_from_slice(&b[8..20]);
    let body = &b[20..20 + length];
    let mut pos = 0;
    let mut tlvs = vec![];
    while pos < body.len() {
        if body.len() - pos < 4 {
            return Err("truncated attribute header".into());
        }
        let ty = u16::from_be_bytes([body[pos], body[pos + 1]]);
        let l = u16::from_be_bytes([body[pos + 2], body[pos + 3]]) as usize;
        if body.len() - pos - 4 < l {
            return Err("truncated attribute value".into());
        }
        let value = body[pos + 4..pos + 4 + l].to_vec();
        tlvs.push(Tlv {
            ty,
            off: 20 + pos,
            value,
        });
        pos += 4 + l;
        pos += (4 - (l % 4)) % 4;
        if pos > body.len() {
            return Err("padding past end".into());
        }
    }
    let (method, class) = split_type(mtype);
    Ok(Parsed {
        mtype,
        method,
        class,
        length,
        tid,
        tlvs,
    })
}

/// The input over which the integrity / fingerprint attribute at `tlv` is computed (RFC 8489 §14.5-14.7):
/// message up to the attribute, header length rewritten to end at the attribute.
pub fn mac_input(msg: &[u8], tlv: &Tlv) -> Vec<u8> {
    let mut v = msg[..tlv.off].to_vec();
    let padded = tlv.value.len() + (4 - tlv.value.len() % 4) % 4;
    let end = tlv.off - 20 + 4 + padded;
    set_len(&mut v, end);
    v
}

pub fn mi_ok(msg: &[u8], tlv: &Tlv, key: &[u8]) -> bool {
    tlv.ty == T_MI && tlv.value.len() == 20 && crypto::hmac_sha1(key, &mac_input(msg, tlv))[..] == tlv.value[..]
}
pub fn sha_ok(msg: &[u8], tlv: &Tlv, key: &[u8]) -> bool {
    tlv.ty == T_SHA && tlv.value.len() == 32 && crypto::hmac_sha256(key, &mac_input(msg, tlv))[..] == tlv.value[..]
}
pub fn fp_ok(msg: &[u8], tlv: &Tlv) -> bool {
    tlv.ty == T_FP
        && tlv.value.len() == 4
        && (crypto::crc32(&mac_input(msg, tlv)) ^ 0x5354_554e).to_be_bytes()[..] == tlv.value[..]
}
