//! Start-up self test of R-codec against the RFC 5769 vectors (bytes shipped in stun-vectors).
use super::codec::*;

pub fn run() -> Result<(), String> {
    // 2.2 sample IPv4 response: short-term password, SOFTWARE + XOR-MAPPED-ADDRESS + MI + FP.
    let v = stun_vectors::SAMPLE_IPV4_RESPONSE;
    let p = ref_parse(&v).map_err(|e| format!("R-codec cannot parse RFC 5769 2.2: {}", e))?;
    if p.method != 1 || p.class != 2 || p.tlvs.len() != 4 {
        return Err("R-codec misreads RFC 5769 2.2 header".into());
    }
    let key = b"VOkJxbRl1RmTxUk/WvJxBt";
    if !mi_ok(&v, &p.tlvs[2], key) {
        return Err("R-crypto/R-codec MI check fails on RFC 5769 2.2".into());
    }
    if !fp_ok(&v, &p.tlvs[3]) {
        return Err("R-crypto/R-codec FINGERPRINT check fails on RFC 5769 2.2".into());
    }
    // XOR-MAPPED-ADDRESS 192.0.2.1:32853
    let want = value_bytes(&L::XorMappedAddress(Addr::V4([192, 0, 2, 1], 32853)), &p.tid);
    if want != p.tlvs[1].value {
        return Err("R-codec XOR-MAPPED-ADDRESS differs from RFC 5769 2.2".into());
    }
    // 2.3 IPv6 response
    let v6 = stun_vectors::SAMPLE_IPV6_RESPONSE;
    let p6 = ref_parse(&v6).map_err(|e| format!("R-codec cannot parse RFC 5769 2.3: {}", e))?;
    let a6 = Addr::V6(
        [0x20, 0x01, 0x0d, 0xb8, 0x12, 0x34, 0x56, 0x78, 0x00, 0x11, 0x22, 0x33, 0x44, 0x55, 0x66, 0x77],
        32853,
    );
    if value_bytes(&L::XorMappedAddress(a6), &p6.tid) != p6.tlvs[1].value {
        return Err("R-codec IPv6 XOR-MAPPED-ADDRESS differs from RFC 5769 2.3".into());
    }
    if !mi_ok(&v6, &p6.tlvs[2], key) || !fp_ok(&v6, &p6.tlvs[3]) {
        return Err("MI/FP check fails on RFC 5769 2.3".into());
    }
    // 2.1 request
    let rq = stun_vectors::SAMPLE_REQUEST;
    let pr = ref_parse(&rq).map_err(|e| format!("R-codec cannot parse RFC 5769 2.1: {}", e))?;
    let mi = pr.tlvs.iter().find(|t| t.ty == T_MI).ok_or("no MI in 2.1")?;
    let fp = pr.tlvs.iter().find(|t| t.ty == T_FP).ok_or("no FP in 2.1")?;
    if !mi_ok(&rq, mi, key) || !fp_ok(&rq, fp) {
        return Err("MI/FP check fails on RFC 5769 2.1".into());
    }
    // 2.4 long-term: key = MD5(user:realm:pass) with the SASLprep'd password "TheMatrIX"
    let lt = stun_vectors::SAMPLE_REQUEST_LONG_TERM_AUTH;
    let pl = ref_parse(&lt).map_err(|e| format!("R-codec cannot parse RFC 5769 2.4: {}", e))?;
    let user = "\u{30de}\u{30c8}\u{30ea}\u{30c3}\u{30af}\u{30b9}";
    let k = super::crypto::md5(format!("{}:example.org:TheMatrIX", user).as_bytes());
    let mi = pl.tlvs.iter().find(|t| t.ty == T_MI).ok_or("no MI in 2.4")?;
    if !mi_ok(&lt, mi, &k) {
        return Err("MI check fails on RFC 5769 2.4 (long-term key derivation)".into());
    }
    // writer: re-create 2.2 with zero padding and compare modulo the padding bytes RFC 5769 sets to 0x20
    let lm = LMsg {
        method: 1,
        class: 2,
        tid: p.tid,
        attrs: vec![L::Software("test vector".into()), L::XorMappedAddress(Addr::V4([192, 0, 2, 1], 32853)), L::Mi, L::Fp],
    };
    let mine = ref_encode(&lm, Some(key));
    if mine.len() != v.len() || mine[..35] != v[..35] || mine[36..48] != v[36..48] {
        return Err("R-codec writer disagrees with RFC 5769 2.2 layout".into());
    }
    Ok(())
}
