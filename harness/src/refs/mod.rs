pub mod codec;
pub mod crypto;
pub mod selftest;
