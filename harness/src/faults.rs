//! E2: exhaustive single-fault walker — every fault of a finite structure-aware alphabet at every position.

use crate::refs::codec::{ref_parse, Parsed, T_ERROR_CODE, T_NONCE, T_PASSWORD_ALGORITHM, T_PASSWORD_ALGORITHMS, T_REALM, T_SOFTWARE, T_USERNAME};

pub const INJECT: &[(&str, &[u8])] = &[
    ("e-acute", &[0xC3, 0xA9]),
    ("u00fd-u0080", &[0xC3, 0xBD, 0xC2, 0x80]),
    ("u-ffff", &[0xEF, 0xBF, 0xBF]),
    // U+00C3 U+0080: the shape of non-ASCII text the library's quoted-string grammar accepts
    ("u00c3-u0080", &[0xC3, 0x83, 0xC2, 0x80]),
    // ... with continuation code points of other Unicode classes: NEL and NBSP (white space), soft hyphen, U+00BF
    ("u00c3-u0085", &[0xC3, 0x83, 0xC2, 0x85]),
    ("u00c3-u00a0", &[0xC3, 0x83, 0xC2, 0xA0]),
    ("u00c3-u00ad", &[0xC3, 0x83, 0xC2, 0xAD]),
    ("u00e2-u00a2-u00ac", &[0xC3, 0xA2, 0xC2, 0xA2, 0xC2, 0xAC]),
    ("space", &[0x20]),
    ("equals", &[0x3D]),
    ("double-equals", &[0x3D, 0x3D]),
    ("lone-continuation", &[0x80]),
    ("dquote", &[0x22]),
    ("backslash", &[0x5C]),
    ("nul", &[0x00]),
    ("tab", &[0x09]),
    // code points that Unicode normalisation rewrites to a longer / shorter form, a jamo pair, a non-ASCII space, DEL
    ("nfc-growing-u0958", &[0xE0, 0xA5, 0x98]),
    ("nfc-shrinking-u212b", &[0xE2, 0x84, 0xAB]),
    ("hangul-jamo-pair", &[0xE1, 0x84, 0x80, 0xE1, 0x85, 0xA1]),
    ("ideographic-space", &[0xE3, 0x80, 0x80]),
    ("del", &[0x7F]),
];

fn set_u16(v: &mut [u8], off: usize, x: usize) {
    let b = (x as u16).to_be_bytes();
    v[off] = b[0];
    v[off + 1] = b[1];
}

/// Which fault families to walk.
#[derive(Clone, Copy)]
pub struct Families {
    pub bits: bool,
    pub bytes: bool,
    pub truncate: bool,
    pub lengths: bool,
    pub strings: bool,
    pub splice: bool,
}

impl Families {
    pub fn all() -> Self {
        Families { bits: true, bytes: true, truncate: true, lengths: true, strings: true, splice: true }
    }
}

/// Calls `f(mutant, fault class label)` for every single fault. Returns the number of mutants.
pub fn single_faults(seed: &[u8], fam: Families, f: &mut dyn FnMut(&[u8], &'static str)) -> u64 {
    let n = seed.len();
    let mut count = 0u64;
    let mut emit = |m: &[u8], l: &'static str, count: &mut u64| {
        if m != seed {
            *count += 1;
            f(m, l);
        }
    };
    let mut buf = seed.to_vec();
    if fam.bits {
        for i in 0..n {
            for b in 0..8 {
                buf[i] ^= 1 << b;
                emit(&buf, "bit-flip", &mut count);
                buf[i] ^= 1 << b;
            }
        }
    }
    if fam.bytes {
        for i in 0..n {
            let old = buf[i];
            // extremes plus the small enumeration codes (address family, class bits) a single bit flip cannot reach
            for v in [0x00u8, 0xFF, 0x7F, 0x80, 0x01, 0x02] {
                buf[i] = v;
                emit(&buf, "byte-substitution", &mut count);
            }
            buf[i] = old;
        }
    }
    if fam.truncate {
        for l in 0..n {
            emit(&seed[..l], "truncation", &mut count);
        }
    }
    let parsed: Option<Parsed> = ref_parse(seed).ok();
    if fam.lengths && n >= 20 {
        for x in [0usize, 4, n.wrapping_sub(24), n.wrapping_sub(21), n.wrapping_sub(19), n.wrapping_sub(16), 0xFFFC, 0xFFFF] {
            let mut m = seed.to_vec();
            set_u16(&mut m, 2, x & 0xFFFF);
            emit(&m, "header-length", &mut count);
        }
        if let Some(p) = &parsed {
            for t in &p.tlvs {
                let len = t.value.len();
                let to_end = n - (t.off + 4);
                // relative edits plus the fixed sizes other attribute kinds use (2, 4, 8, 20, 32)
                for x in [0usize, 1, len.wrapping_sub(1), len + 1, len + 4, to_end, 0xFFFF, 2, 4, 8, 20, 32] {
                    let mut m = seed.to_vec();
                    set_u16(&mut m, t.off + 2, x & 0xFFFF);
                    emit(&m, "attribute-length", &mut count);
                }
                // nested parameter lengths
                if t.ty == T_PASSWORD_ALGORITHM || t.ty == T_PASSWORD_ALGORITHMS {
                    let mut pos = 0;
                    while pos + 4 <= len {
                        let plen = u16::from_be_bytes([t.value[pos + 2], t.value[pos + 3]]) as usize;
                        for x in [0usize, 1, plen.wrapping_sub(1), plen + 1, plen + 4, len.saturating_sub(pos + 4), 0xFFFF] {
                            let mut m = seed.to_vec();
                            set_u16(&mut m, t.off + 4 + pos + 2, x & 0xFFFF);
                            emit(&m, "nested-length", &mut count);
                        }
                        pos += 4 + plen + (4 - plen % 4) % 4;
                    }
                }
            }
        }
    }
    if fam.strings {
        if let Some(p) = &parsed {
            for t in &p.tlvs {
                let (start, len) = match t.ty {
                    T_USERNAME | T_REALM | T_NONCE | T_SOFTWARE => (t.off + 4, t.value.len()),
                    T_ERROR_CODE if t.value.len() >= 4 => (t.off + 8, t.value.len() - 4),
                    _ => continue,
                };
                for o in 0..len {
                    for (_, inj) in INJECT {
                        let mut m = seed.to_vec();
                        for (k, b) in inj.iter().enumerate() {
                            if o + k < len {
                                m[start + o + k] = *b;
                            }
                        }
                        emit(&m, "string-injection", &mut count);
                    }
                }
            }
        }
    }
    if fam.splice {
        if let Some(p) = &parsed {
            let spans: Vec<(usize, usize)> = p
                .tlvs
                .iter()
                .map(|t| (t.off, t.off + 4 + t.value.len() + (4 - t.value.len() % 4) % 4))
                .collect();
            let rebuild = |order: &[usize]| -> Vec<u8> {
                let mut m = seed[..20].to_vec();
                for ix in order {
                    m.extend_from_slice(&seed[spans[*ix].0..spans[*ix].1.min(n)]);
                }
                let body = m.len() - 20;
                set_u16(&mut m, 2, body & 0xFFFF);
                m
            };
            let k = spans.len();
            let ident: Vec<usize> = (0..k).collect();
            for i in 0..k {
                // delete
                let mut o = ident.clone();
                o.remove(i);
                emit(&rebuild(&o), "attribute-delete", &mut count);
                // duplicate to each position / move to each position
                for j in 0..=k {
                    let mut o = ident.clone();
                    o.insert(j, i);
                    emit(&rebuild(&o), "attribute-duplicate", &mut count);
                    if j < k && j != i {
                        let mut o = ident.clone();
                        let x = o.remove(i);
                        o.insert(j, x);
                        emit(&rebuild(&o), "attribute-move", &mut count);
                    }
                }
            }
        }
    }
    count
}

/// Every pair of bit-flip / byte-substitution faults (thorough tier, small seeds).
pub fn double_faults(seed: &[u8], f: &mut dyn FnMut(&[u8], &'static str)) -> u64 {
    let n = seed.len();
    let mut count = 0;
    let mut m = seed.to_vec();
    let vals = [0x00u8, 0xFF, 0x80];
    for i in 0..n {
        for j in (i + 1)..n {
            for a in vals {
                for b in vals {
                    let (oi, oj) = (m[i], m[j]);
                    m[i] = a;
                    m[j] = b;
                    if m != seed {
                        count += 1;
                        f(&m, "double-byte-substitution");
                    }
                    m[i] = oi;
                    m[j] = oj;
                }
            }
        }
    }
    count
}

/// Wrong values for a MAC / checksum that a careless comparison may accept: errors that cancel under a folding (XOR / sum)
/// comparison, permutations of its words, values right only in a prefix or a suffix.
pub fn mac_patterns(mac: &[u8]) -> Vec<(&'static str, Vec<u8>)> {
    let n = mac.len();
    let mut out: Vec<(&'static str, Vec<u8>)> = vec![];
    // the same mask on two bytes a multiple of four apart
    for i in 0..n {
        for j in ((i + 4)..n).step_by(4) {
            for mask in [0x01u8, 0x80, 0xFF] {
                let mut m = mac.to_vec();
                m[i] ^= mask;
                m[j] ^= mask;
                out.push(("same-mask-on-two-bytes-a-word-apart", m));
            }
        }
    }
    // +1 / -1 on two bytes (sums cancel)
    for i in 0..n.saturating_sub(1) {
        let mut m = mac.to_vec();
        m[i] = m[i].wrapping_add(1);
        m[i + 1] = m[i + 1].wrapping_sub(1);
        out.push(("plus-one-minus-one", m));
    }
    // words swapped / rotated / reversed
    if n >= 8 {
        let mut m = mac.to_vec();
        for k in 0..4 {
            m.swap(k, 4 + k);
        }
        out.push(("first-two-words-swapped", m));
        let mut m = mac.to_vec();
        m.rotate_left(4);
        out.push(("rotated-by-a-word", m));
        let mut m = mac.to_vec();
        m.rotate_left(1);
        out.push(("rotated-by-a-byte", m));
        let mut m = mac.to_vec();
        m.reverse();
        out.push(("reversed", m));
    }
    // inverted; right only in the first / last word; all zero
    out.push(("inverted", mac.iter().map(|b| !b).collect()));
    for keep in [4usize, 8, n / 2] {
        let mut m: Vec<u8> = mac.iter().map(|b| !b).collect();
        m[..keep].copy_from_slice(&mac[..keep]);
        out.push(("right-only-in-a-prefix", m));
        let mut m: Vec<u8> = mac.iter().map(|b| !b).collect();
        m[n - keep..].copy_from_slice(&mac[n - keep..]);
        out.push(("right-only-in-a-suffix", m));
    }
    out.push(("all-zero", vec![0; n]));
    out.retain(|(_, m)| m != mac);
    out
}
