// stun-agent/tests/demo_c16.rs
//
// Property C16: stream reassembly does not depend on how the stream is chunked.
// In particular, a stream whose next 20 bytes are not a STUN header, or whose
// packet exceeds the supplied buffer, is refused at the chunk that completes the
// header, and the refusal (error type, bytes consumed, and the filled part
// `buffer[..size]` of the buffer that is handed back) is the same for every
// chunking of that stream.
use stun_agent::{
    StunPacketDecodedError, StunPacketDecodedValue, StunPacketDecoder, StunPacketErrorType,
};

const HEADER: usize = 20;

/// A well-formed STUN binding request carrying one SOFTWARE attribute of
/// `value_len` bytes (padded to a multiple of four).
fn packet(seed: u8, value_len: usize) -> Vec<u8> {
    let padded = (value_len + 3) & !3;
    let body = 4 + padded;
    let mut out = Vec::with_capacity(HEADER + body);
    out.extend_from_slice(&[0x00, 0x01]);
    out.extend_from_slice(&(body as u16).to_be_bytes());
    out.extend_from_slice(&[0x21, 0x12, 0xA4, 0x42]);
    out.extend((0..12u8).map(|i| seed.wrapping_mul(31).wrapping_add(i) | 1));
    out.extend_from_slice(&[0x80, 0x22]);
    out.extend_from_slice(&(value_len as u16).to_be_bytes());
    out.extend((0..padded).map(|i| b'a' + ((i + seed as usize) % 26) as u8));
    assert_eq!(out.len(), HEADER + body);
    out
}

/// What a refusal looks like from the outside.
#[derive(Debug, PartialEq, Eq)]
struct Refusal {
    small_buffer: bool,
    /// index of the chunk at which the error was reported
    chunk: usize,
    /// bytes of the stream consumed when the error was reported
    consumed: usize,
    /// length of the buffer that was handed back
    buffer_len: usize,
    /// the part of the buffer reported as filled: `buffer[..size]`
    filled: Vec<u8>,
}

#[derive(Debug, PartialEq, Eq)]
enum Outcome {
    Packets(Vec<Vec<u8>>),
    Refused(Vec<Vec<u8>>, Refusal),
}

fn refusal(err: StunPacketDecodedError, chunk: usize, consumed: usize) -> Refusal {
    Refusal {
        small_buffer: matches!(err.error_type, StunPacketErrorType::SmallBuffer),
        chunk,
        consumed,
        buffer_len: err.buffer.len(),
        filled: err.buffer[..err.size].to_vec(),
    }
}

/// Feeds `stream`, cut at the given offsets, to decoders working on buffers of
/// `buffer_len` bytes, the way a reader of a TCP connection would.
fn run(stream: &[u8], cuts: &[usize], buffer_len: usize) -> Outcome {
    let mut bounds = vec![0];
    bounds.extend_from_slice(cuts);
    bounds.push(stream.len());

    let mut packets = Vec::new();
    let mut decoder = StunPacketDecoder::new(vec![0; buffer_len]).expect("decoder");
    let mut total = 0;
    for (index, pair) in bounds.windows(2).enumerate() {
        let mut chunk = &stream[pair[0]..pair[1]];
        loop {
            match decoder.decode(chunk) {
                Ok(StunPacketDecodedValue::Decoded((packet, consumed))) => {
                    packets.push(packet.as_ref().to_vec());
                    total += consumed;
                    chunk = &chunk[consumed..];
                    decoder = StunPacketDecoder::new(vec![0; buffer_len]).expect("decoder");
                    if chunk.is_empty() {
                        break;
                    }
                }
                Ok(StunPacketDecodedValue::MoreBytesNeeded((next, _))) => {
                    total += chunk.len();
                    decoder = next;
                    break;
                }
                Err(err) => {
                    let consumed = total + err.consumed;
                    return Outcome::Refused(packets, refusal(err, index, consumed));
                }
            }
        }
    }
    assert_eq!(total, stream.len(), "consumed counts add up");
    Outcome::Packets(packets)
}

/// Index of the chunk that contains the byte at `offset` of the stream.
fn chunk_of(cuts: &[usize], offset: usize) -> usize {
    cuts.iter().filter(|cut| **cut <= offset).count()
}

/// Checks the refusal of `stream` (first packet ok, second one refused with the
/// error `small_buffer`) for every chunking with one cut and with two cuts.
fn check_refusal(stream: &[u8], first_len: usize, buffer_len: usize, small_buffer: bool) {
    let bad_header = &stream[first_len..first_len + HEADER];
    let check = |cuts: &[usize]| {
        let expected = Outcome::Refused(
            vec![stream[..first_len].to_vec()],
            Refusal {
                small_buffer,
                chunk: chunk_of(cuts, first_len + HEADER - 1),
                consumed: first_len + HEADER,
                buffer_len,
                filled: bad_header.to_vec(),
            },
        );
        assert_eq!(run(stream, cuts, buffer_len), expected, "cuts {cuts:?}");
    };
    check(&[]);
    for a in 0..=stream.len() {
        check(&[a]);
        for b in a..=stream.len() {
            check(&[a, b]);
        }
    }
}

#[test]
fn refusal_of_a_foreign_header_is_independent_of_the_chunking() {
    // A good packet followed by 20 bytes that are not a STUN header (wrong cookie).
    let first = packet(1, 5);
    let mut second = packet(2, 9);
    second[4] ^= 0xFF;
    let stream = [first.clone(), second].concat();
    check_refusal(&stream, first.len(), 64, false);
}

#[test]
fn refusal_of_an_oversized_packet_is_independent_of_the_chunking() {
    // A good packet followed by one that is one word longer than the buffer.
    let first = packet(3, 4);
    let second = packet(4, 40);
    let buffer_len = second.len() - 4;
    assert!(first.len() <= buffer_len);
    let stream = [first.clone(), second].concat();
    check_refusal(&stream, first.len(), buffer_len, true);
}

/// Control: streams of good packets come out the same under every one- and
/// two-cut chunking, for buffers of exactly the largest packet and larger.
#[test]
fn control_good_streams_are_reassembled_under_every_chunking() {
    let packets = vec![packet(5, 0), packet(6, 13), packet(7, 3)];
    let stream = packets.concat();
    let largest = packets.iter().map(Vec::len).max().unwrap();
    for buffer_len in [largest, largest + 1, 1024] {
        for a in 0..=stream.len() {
            for b in a..=stream.len() {
                assert_eq!(
                    run(&stream, &[a, b], buffer_len),
                    Outcome::Packets(packets.clone()),
                    "cuts [{a}, {b}] buffer {buffer_len}"
                );
            }
        }
    }
}

/// Control: a refusal whose header arrives in pieces reports the header bytes
/// in the filled part of the buffer (this is the behaviour the two tests above
/// require of every chunking).
#[test]
fn control_refusal_with_a_fragmented_header() {
    let mut bad = packet(8, 8);
    bad[0] |= 0x80;
    for cut in 1..HEADER {
        let expected = Outcome::Refused(
            vec![],
            Refusal {
                small_buffer: false,
                chunk: 1,
                consumed: HEADER,
                buffer_len: 128,
                filled: bad[..HEADER].to_vec(),
            },
        );
        assert_eq!(run(&bad, &[cut], 128), expected, "cut {cut}");
    }
}
